package c17

// Worker-process pool. Measured: synctest bubbles do not scale across threads of one process (2 workers saturate,
// ~11k replays/s on 16 cores because of scheduler-lock contention on the park/unpark ping-pong), while a
// GOMAXPROCS=1 process does ~15k replays/s on its own. So the BFS parent farms replays out to NumCPU copies of this
// test binary (env VERIF_C17_WORKER=1) over gob pipes on fd 3/4. Workers are pure functions (config index, path) ->
// result; all search state lives in the parent, so the enumeration is identical to the in-process one.

import (
	"bufio"
	"encoding/gob"
	"encoding/json"
	"fmt"
	"os"
	"os/exec"
	"runtime"
	"sync"
	"testing"
)

type wireJob struct {
	N    int
	Root int32
	Path []byte
}

type wireRes struct {
	Key, Full, Ensig [16]byte
	Enabled          []byte
	ViolKey          string
	ViolDetail       []byte
	Infra            string
	Label            string
	Script           string
	Stats            map[string]int64
	Depth            int
}

func encPath(p []evt) []byte {
	out := make([]byte, 0, 2*len(p))
	for _, e := range p {
		if e.A > 255 {
			panic("event argument out of wire range")
		}
		out = append(out, e.K, byte(e.A))
	}
	return out
}

func decPath(b []byte) []evt {
	out := make([]evt, 0, len(b)/2)
	for i := 0; i+1 < len(b); i += 2 {
		out = append(out, evt{b[i], uint64(b[i+1])})
	}
	return out
}

func toWire(r *result) wireRes {
	w := wireRes{Key: r.key, Full: r.full, Ensig: r.ensig, Enabled: encPath(r.enabled), Infra: r.infra, Label: r.label,
		Script: r.script, Stats: r.stats, Depth: r.depth}
	if r.viol != nil {
		w.ViolKey = r.viol.key
		w.ViolDetail, _ = json.Marshal(r.viol.detail)
	}
	return w
}

func fromWire(w *wireRes) result {
	r := result{key: w.Key, full: w.Full, ensig: w.Ensig, enabled: decPath(w.Enabled), infra: w.Infra, label: w.Label,
		script: w.Script, stats: w.Stats, depth: w.Depth}
	if w.ViolKey != "" {
		d := map[string]any{}
		json.Unmarshal(w.ViolDetail, &d)
		r.viol = &violation{key: w.ViolKey, detail: d}
	}
	return r
}

var chunkSizes = []uint64{1, 2, 1000}

// workerMain serves replay requests until its input pipe closes.
func workerMain(t *testing.T) {
	in, out := os.NewFile(3, "jobs"), os.NewFile(4, "results")
	dec := gob.NewDecoder(bufio.NewReaderSize(in, 1<<16))
	bw := bufio.NewWriterSize(out, 1<<16)
	enc := gob.NewEncoder(bw)
	cfgs := map[int][]*config{}
	for {
		var jobs []wireJob
		if err := dec.Decode(&jobs); err != nil {
			return
		}
		res := make([]wireRes, len(jobs))
		for i, j := range jobs {
			cs, ok := cfgs[j.N]
			if !ok {
				cs = roots(j.N, chunkSizes)
				cfgs[j.N] = cs
			}
			r := replay(t, cs[j.Root], decPath(j.Path))
			res[i] = toWire(&r)
		}
		if err := enc.Encode(res); err != nil {
			return
		}
		bw.Flush()
	}
}

type worker struct {
	cmd *exec.Cmd
	enc *gob.Encoder
	bw  *bufio.Writer
	dec *gob.Decoder
	in  *os.File
}

type pool struct {
	ws []*worker
}

func newPool() (*pool, error) {
	p := &pool{}
	k := runtime.NumCPU()
	if s := os.Getenv("VERIF_C17_WORKERS"); s != "" {
		fmt.Sscan(s, &k)
	}
	for i := 0; i < k; i++ {
		jr, jw, err := os.Pipe()
		if err != nil {
			return nil, err
		}
		rr, rw, err := os.Pipe()
		if err != nil {
			return nil, err
		}
		cmd := exec.Command(os.Args[0], "-test.run", "^TestCheck$", "-test.timeout", "0")
		cmd.Env = append(os.Environ(), "VERIF_C17_WORKER=1", "GOMAXPROCS=1")
		cmd.ExtraFiles = []*os.File{jr, rw}
		cmd.Stderr = os.Stderr
		if err := cmd.Start(); err != nil {
			return nil, err
		}
		jr.Close()
		rw.Close()
		bw := bufio.NewWriterSize(jw, 1<<16)
		p.ws = append(p.ws, &worker{cmd: cmd, enc: gob.NewEncoder(bw), bw: bw, dec: gob.NewDecoder(bufio.NewReaderSize(rr, 1<<16)), in: jw})
	}
	return p, nil
}

func (p *pool) close() {
	for _, w := range p.ws {
		w.in.Close()
		w.cmd.Wait()
	}
}

// run replays every node; results[i].infra=="timeout" for nodes skipped because stop() became true.
func (p *pool) run(n int, frontier []node, stop func() bool) ([]result, error) {
	const batch = 128
	results := make([]result, len(frontier))
	nb := (len(frontier) + batch - 1) / batch
	ch := make(chan int, nb)
	for b := 0; b < nb; b++ {
		ch <- b
	}
	close(ch)
	var wg sync.WaitGroup
	var mu sync.Mutex
	var firstErr error
	for _, w := range p.ws {
		wg.Add(1)
		go func(w *worker) {
			defer wg.Done()
			for b := range ch {
				lo, hi := b*batch, min((b+1)*batch, len(frontier))
				if stop() {
					for i := lo; i < hi; i++ {
						results[i].infra = "timeout"
					}
					continue
				}
				jobs := make([]wireJob, hi-lo)
				for i := lo; i < hi; i++ {
					jobs[i-lo] = wireJob{N: n, Root: frontier[i].root, Path: encPath(frontier[i].path)}
				}
				var res []wireRes
				err := w.enc.Encode(jobs)
				if err == nil {
					err = w.bw.Flush()
				}
				if err == nil {
					err = w.dec.Decode(&res)
				}
				if err == nil && len(res) != len(jobs) {
					err = fmt.Errorf("worker returned %d results for %d jobs", len(res), len(jobs))
				}
				if err != nil {
					mu.Lock()
					if firstErr == nil {
						firstErr = fmt.Errorf("worker process failed: %w", err)
					}
					mu.Unlock()
					return
				}
				for i := range res {
					results[lo+i] = fromWire(&res[i])
				}
			}
		}(w)
	}
	wg.Wait()
	return results, firstErr
}
