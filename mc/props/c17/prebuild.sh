#!/bin/bash
# Adds one file to package github.com/NethermindEth/juno/l1 through `go build -overlay` (nothing in $VERIF_REPO is
# touched or replaced): l1_verif_export.go, which exports the unexported geth-provider forwarder and decoder to the
# harness. Prints the overlay JSON path.
set -eu
REPO="${VERIF_REPO:-/repo}"
SUF=""
[ "$REPO" != /repo ] && SUF=".$(echo "$REPO" | tr -c 'A-Za-z0-9' '_')"
OUT="/verif/build/overlay-c17$SUF"
mkdir -p "$OUT"
cp /verif/mc/props/c17/l1_verif_export.go.txt "$OUT/l1_verif_export.go"
grep -q 'func forwardStateUpdates(' "$REPO/l1/geth_l1_state_provider.go" || { echo "l1.forwardStateUpdates not found" >&2; exit 1; }
JSON="$OUT/overlay.json"
printf '{"Replace":{"%s": "%s"}}\n' "$REPO/l1/zz_verif_export.go" "$OUT/l1_verif_export.go" > "$JSON"
echo "$JSON"
