package c17

// The eth_getLogs path below the L1StateProvider interface: GethL1StateProvider.FilterStateUpdate ->
// contract.StarknetFilterer.FilterLogStateUpdate -> bind.BoundContract.FilterLogs on a scripted, well-behaved log back
// end. "The state-update events the L1 node delivered" must all come out, in order, decoded exactly - for every result
// size from 0 up to and beyond the adapter's internal channel capacity (128) and for every sub-range of the scripted
// chain. go-ethereum ships the logs from its own goroutine and the adapter selects between the log channel and the
// subscription's completion; which ready case a Go select takes is a runtime coin flip the harness cannot own, so each
// query is repeated (a query that loses a log with probability p per ready log is caught with probability 1-(1-p)^n).
// This part is therefore a free-running complement, not a schedule enumeration; it can only report a result that
// really was returned wrong.

import (
	"context"
	"errors"
	"fmt"
	"math/big"

	"verif/mc/ev"

	"github.com/NethermindEth/juno/l1"
	"github.com/NethermindEth/juno/l1/geth/contract"
	ethereum "github.com/ethereum/go-ethereum"
	"github.com/ethereum/go-ethereum/common"
	"github.com/ethereum/go-ethereum/core/types"
)

type logBackend struct{ logs []types.Log }

func (b *logBackend) FilterLogs(_ context.Context, q ethereum.FilterQuery) ([]types.Log, error) {
	var out []types.Log
	for i := range b.logs {
		n := b.logs[i].BlockNumber
		if (q.FromBlock != nil && n < q.FromBlock.Uint64()) || (q.ToBlock != nil && n > q.ToBlock.Uint64()) {
			continue
		}
		out = append(out, b.logs[i])
	}
	return out, nil
}

func (b *logBackend) SubscribeFilterLogs(context.Context, ethereum.FilterQuery, chan<- types.Log) (ethereum.Subscription, error) {
	return nil, errors.New("not used")
}

func adapterSweep(r *ev.Run) {
	parsed, err := contract.StarknetMetaData.GetAbi()
	if err != nil {
		r.Infra("contract ABI: %v", err)
		return
	}
	id := parsed.Events["LogStateUpdate"].ID
	word := func(x uint64) []byte { return common.LeftPadBytes(new(big.Int).SetUint64(x).Bytes(), 32) }
	mk := func(n int) *logBackend {
		b := &logBackend{}
		for i := 1; i <= n; i++ {
			// two events share an L1 block every 7th log ("several events per Ethereum block")
			l1b := uint64(i * 10)
			if i%7 == 0 {
				l1b = uint64((i - 1) * 10)
			}
			data := append(append(append([]byte{}, word(0x2000+uint64(i))...), word(uint64(i))...), word(0x1000+uint64(i))...)
			b.logs = append(b.logs, types.Log{Topics: []common.Hash{id}, Data: data, BlockNumber: l1b, Index: uint(i)})
		}
		return b
	}
	sizes := ev.Pick(r, []int{0, 1, 2, 3, 5, 17, 127, 128, 129, 300}, []int{0, 1, 2, 3, 4, 5, 8, 17, 64, 127, 128, 129, 130, 256, 300, 1000})
	reps := ev.Pick(r, 12, 40)
	var queries int64
	for _, n := range sizes {
		be := mk(n)
		filterer, err := contract.NewStarknetFilterer(common.Address{}, be)
		if err != nil {
			r.Infra("filterer: %v", err)
			return
		}
		p := l1.VerifNewGethProvider(filterer)
		type rng struct{ from, to uint64 }
		ranges := []rng{{0, uint64(n*10 + 5)}}
		if n >= 3 {
			ranges = append(ranges, rng{10, 10}, rng{uint64(n * 5), uint64(n*10 + 5)}, rng{11, uint64(n*10 - 1)})
		}
		for _, q := range ranges {
			want, _ := be.FilterLogs(context.Background(), ethereum.FilterQuery{FromBlock: new(big.Int).SetUint64(q.from), ToBlock: new(big.Int).SetUint64(q.to)})
			for rep := 0; rep < reps; rep++ {
				queries++
				r.Add("evaluations", 1)
				got, err := p.FilterStateUpdate(context.Background(), q.from, q.to)
				if err != nil {
					r.Violate("adapter: FilterStateUpdate fails on a well-behaved back end", map[string]any{"logs": n, "from": q.from, "to": q.to, "err": err.Error()})
					break
				}
				bad := ""
				if len(got) != len(want) {
					bad = fmt.Sprintf("%d of %d logs returned", len(got), len(want))
				} else {
					for i := range got {
						i0 := int(want[i].Index)
						if got[i].L1RefHeight != want[i].BlockNumber || got[i].L2BlockNumber != uint64(i0) || got[i].Removed ||
							got[i].L2BlockHash.Uint64() != 0x1000+uint64(i0) || got[i].StateRoot.Uint64() != 0x2000+uint64(i0) {
							bad = fmt.Sprintf("log %d decoded wrongly or out of order: %+v", i, *got[i])
							break
						}
					}
				}
				if bad != "" {
					r.Violate("adapter: eth_getLogs result not handed on completely and in order", map[string]any{"logs_in_range": len(want), "from": q.from, "to": q.to, "what": bad, "repetition": rep})
					break
				}
			}
		}
	}
	r.Set("adapter_filter_queries", queries)
}
