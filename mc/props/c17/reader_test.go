package c17

// Part R - the recorded head as a REGISTER: read (Blockchain.L1Head(), what every RPC handler that reports a finality
// status does) while the L1 client commits it, over process lifetimes.
//
// The BFS of c17_test.go reads the head only between the client's steps and only on the Blockchain object that wrote
// it. Here the node is a sequence of process lifetimes over ONE database and the head is read at every KV-store
// operation boundary of a commit and committed at every KV-store operation boundary of a read:
//
//   history  = <= L operations over { r: Blockchain.L1Head()
//                                     w: one more state-update log is mined + finalised on L1, then a real l1.Client
//                                        (CatchUpL1Head: scan, setL1Head -> Blockchain.SetL1Head) commits it
//                                     e: the client rescans and commits although nothing new was mined
//                                     X: restart = fresh Blockchain (+ fresh client) over the same database }
//   schedule = every operation may have ONE other operation run to completion at one of its scheduling points, that
//              operation again one at one of its own points, ... down to `nest` levels (bounds: quick L<=4 with two
//              overlapping operations + L<=2 with three; thorough L<=5 / L<=3). Scheduling points of an operation = before and after every KV-store
//              call it makes (Get / Has / Put / Delete / DeleteRange / iterator / snapshot / batch Write / Update / Write
//              transaction), found by a database proxy (schedDB) that calls back into the harness; their number is
//              MEASURED per (history prefix, operation) by running it, never assumed. All (point, other operation)
//              pairs: reader inside committer, committer inside reader, reader inside reader; never two committers
//              (the L1 client is the only writer of the head and is one goroutine) and never a restart inside an
//              operation.
//
// Oracle (dictionary model: head = value of the last completed commit, none = 0):
//   * a read that overlaps no commit returns exactly the model head; a read that overlaps commits returns the head as
//     it was when the read began or a value one of those commits writes (regular register);
//   * after the whole history: two further L1Head() reads, the persisted record (core.GetL1Head on the raw store) and
//     L1Head() of a freshly restarted Blockchain all equal the model head. These probing reads are made only at the
//     END of a history (every prefix of a history is itself an enumerated history), because a read may change the
//     node's state, so probing in the middle would mask exactly the schedules this part exists for;
//   * every commit succeeds and announces (OnNewL1Head) the value it wrote.
//
// An operation started at a scheduling point runs on its own goroutine and the interrupted one waits for it. Should
// it not finish (it waits for a lock the interrupted operation holds - a legitimate implementation), the interrupted
// operation is resumed after blockedAfter and both run to the end; the final oracle is unchanged, the case is counted
// (reader_overlaps_serialised_by_a_lock). On the unchanged tree that count is 0 and the enumeration is deterministic.

import (
	"context"
	"errors"
	"fmt"
	"math/big"
	"os"
	"sort"
	"strings"
	"sync"
	"time"

	"verif/mc/chain"
	"verif/mc/ev"

	"github.com/NethermindEth/juno/blockchain"
	"github.com/NethermindEth/juno/core"
	"github.com/NethermindEth/juno/core/felt"
	"github.com/NethermindEth/juno/db"
	"github.com/NethermindEth/juno/db/memory"
	"github.com/NethermindEth/juno/l1"
	"github.com/NethermindEth/juno/utils/log"
)

const blockedAfter = 3 * time.Second

// ---------------------------------------------------------------------------------------------------------------
// database proxy: every store operation is bracketed by two scheduling points

type schedDB struct {
	db.KeyValueStore
	pt func(string)
}

var _ db.KeyValueStore = (*schedDB)(nil)

func (d *schedDB) Has(k []byte) (bool, error) {
	d.pt("has<")
	ok, err := d.KeyValueStore.Has(k)
	d.pt("has>")
	return ok, err
}

func (d *schedDB) Get(k []byte, cb func([]byte) error) error {
	d.pt("get<")
	err := d.KeyValueStore.Get(k, cb)
	d.pt("get>")
	return err
}

func (d *schedDB) NewIterator(p []byte, ub bool) (db.Iterator, error) {
	d.pt("iter<")
	it, err := d.KeyValueStore.NewIterator(p, ub)
	d.pt("iter>")
	return it, err
}

func (d *schedDB) Put(k, v []byte) error {
	d.pt("put<")
	err := d.KeyValueStore.Put(k, v)
	d.pt("put>")
	return err
}

func (d *schedDB) Delete(k []byte) error {
	d.pt("del<")
	err := d.KeyValueStore.Delete(k)
	d.pt("del>")
	return err
}

func (d *schedDB) DeleteRange(s, e []byte) error {
	d.pt("delrange<")
	err := d.KeyValueStore.DeleteRange(s, e)
	d.pt("delrange>")
	return err
}

func (d *schedDB) NewSnapshot() db.Snapshot {
	d.pt("snap<")
	s := d.KeyValueStore.NewSnapshot()
	d.pt("snap>")
	return s
}

type schedBatch struct {
	db.IndexedBatch
	pt func(string)
}

func (b *schedBatch) Write() error {
	b.pt("batch<")
	err := b.IndexedBatch.Write()
	b.pt("batch>")
	return err
}

func (d *schedDB) NewBatch() db.Batch { return &schedBatch{d.KeyValueStore.NewIndexedBatch(), d.pt} }
func (d *schedDB) NewBatchWithSize(int) db.Batch {
	return &schedBatch{d.KeyValueStore.NewIndexedBatch(), d.pt}
}

func (d *schedDB) NewIndexedBatch() db.IndexedBatch {
	return &schedBatch{d.KeyValueStore.NewIndexedBatch(), d.pt}
}

func (d *schedDB) NewIndexedBatchWithSize(int) db.IndexedBatch {
	return &schedBatch{d.KeyValueStore.NewIndexedBatch(), d.pt}
}

func (d *schedDB) Update(fn func(db.IndexedBatch) error) error {
	b := d.NewIndexedBatch()
	if err := fn(b); err != nil {
		return err
	}
	return b.Write()
}

func (d *schedDB) Write(fn func(db.Batch) error) error {
	b := d.NewBatch()
	if err := fn(b); err != nil {
		return err
	}
	return b.Write()
}

func (d *schedDB) WithListener(db.EventListener) db.KeyValueStore { return d }

// ---------------------------------------------------------------------------------------------------------------
// operations and histories

type rop struct {
	kind byte // 'r' 'w' 'e' 'X'
	at   int  // scheduling point of this operation at which inj runs (-1: none)
	inj  *rop

	pts    int      // measured by the last run: scheduling points this operation passed
	names  []string // ... and what they were
	fired  bool
	result string // what a read returned / a commit wrote (for the written-out case)
}

func (o *rop) String() string {
	s := map[byte]string{'r': "read", 'w': "commit-new", 'e': "commit-again", 'X': "restart"}[o.kind]
	if o.inj != nil {
		nm := "?"
		if o.at < len(o.names) {
			nm = o.names[o.at]
		}
		s += fmt.Sprintf("[@%d %s: %s]", o.at, nm, o.inj)
	}
	return s
}

func (o *rop) results() string {
	s := string(o.kind) + "=" + o.result
	if o.inj != nil {
		s += " [" + o.inj.results() + "]"
	}
	return s
}

func histStrings(h []*rop) []string {
	out := make([]string, len(h))
	for i, o := range h {
		out[i] = o.String()
	}
	return out
}

// shape names the overlap class of an operation tree: which kinds overlap, outermost first.
func (o *rop) shape() string {
	if o.inj == nil {
		return ""
	}
	n := map[byte]string{'r': "reader", 'w': "committer", 'e': "committer"}
	s := n[o.inj.kind] + "-inside-" + n[o.kind]
	if o.inj.inj != nil {
		s = n[o.inj.inj.kind] + "-inside-" + s
	}
	return s
}

type rframe struct {
	op      *rop
	n       int
	allowed map[uint64]bool // for a read: values it may return
}

// rworld is one node (database + current Blockchain object) and the model.
type rworld struct {
	newState bool
	mem      *memory.Database
	sdb      *schedDB
	bc       *blockchain.Blockchain

	mu       sync.Mutex
	stack    []*rframe
	blocked  bool
	late     []chan struct{}
	logs     uint64 // state-update logs on L1 (log i: L1 block 10*i, Starknet block i), all finalised
	head     uint64 // model: Starknet block of the recorded head, 0 = none
	restarts int
	emitted  []uint64
	viol     *violation
	infra    string
	history  []*rop
}

func rHash(i uint64) felt.Felt { return felt.FromUint64[felt.Felt](0x1000 + i) }
func rRoot(i uint64) felt.Felt { return felt.FromUint64[felt.Felt](0x2000 + i) }

// rprov: a well-behaved L1 node whose chain is the world's `logs` as they are at the time of the call.
type rprov struct{ w *rworld }

func (p rprov) n() uint64 { p.w.mu.Lock(); defer p.w.mu.Unlock(); return p.w.logs }
func (p rprov) ChainID(context.Context) (*big.Int, error) {
	return new(big.Int).Set(chain.Net.L1ChainID), nil
}
func (p rprov) FinalisedHeight(context.Context) (uint64, error) { return 10*p.n() + 5, nil }
func (p rprov) LatestHeight(context.Context) (uint64, error)    { return 10*p.n() + 5, nil }
func (p rprov) WatchStateUpdate(context.Context, chan<- *l1.StateUpdate) (l1.Subscription, error) {
	return nil, errors.New("not used")
}

func (p rprov) FilterStateUpdate(_ context.Context, from, to uint64) ([]*l1.StateUpdate, error) {
	var out []*l1.StateUpdate
	for i := uint64(1); i <= p.n(); i++ {
		if b := 10 * i; b >= from && b <= to {
			out = append(out, &l1.StateUpdate{L2BlockNumber: i, L2BlockHash: rHash(i), StateRoot: rRoot(i), L1RefHeight: b})
		}
	}
	return out, nil
}
func (p rprov) Close() {}

func (w *rworld) violate(key string, detail map[string]any) {
	w.mu.Lock()
	defer w.mu.Unlock()
	if w.viol != nil {
		return
	}
	detail["history"] = histStrings(w.history)
	detail["backend_new_state"] = w.newState
	w.viol = &violation{key: key, detail: detail}
}

// overlapTag describes the history for violation keys: its latest overlap shape and whether it contains a process
// restart.
func (w *rworld) overlapTag() string {
	shape, restart := "sequential", false
	for _, o := range w.history {
		if o.kind == 'X' {
			restart = true
		}
		if s := o.shape(); s != "" {
			shape = s // the latest overlap in the history names the class
		}
	}
	t := "overlap=" + shape
	if restart {
		t += " after-restart"
	}
	return t
}

// point is called by the database proxy before and after every store operation.
func (w *rworld) point(name string) {
	w.mu.Lock()
	if w.blocked || len(w.stack) == 0 {
		w.mu.Unlock()
		return
	}
	f := w.stack[len(w.stack)-1]
	idx := f.n
	f.n++
	f.op.names = append(f.op.names, name)
	fire := f.op.inj != nil && idx == f.op.at
	if fire {
		f.op.fired = true
	}
	w.mu.Unlock()
	if !fire {
		return
	}
	done := make(chan struct{})
	go func() {
		defer close(done)
		w.exec(f.op.inj)
	}()
	t := time.NewTimer(blockedAfter)
	defer t.Stop()
	select {
	case <-done:
	case <-t.C:
		w.mu.Lock()
		w.blocked = true
		w.late = append(w.late, done)
		w.mu.Unlock()
	}
}

func (w *rworld) headValue(h core.L1Head, err error) (uint64, string) {
	if errors.Is(err, db.ErrKeyNotFound) {
		return 0, ""
	}
	if err != nil {
		return 0, "error: " + err.Error()
	}
	if h.BlockNumber == 0 {
		return 0, "head with Starknet block 0"
	}
	hh, rr := rHash(h.BlockNumber), rRoot(h.BlockNumber)
	if h.BlockHash == nil || h.StateRoot == nil || !h.BlockHash.Equal(&hh) || !h.StateRoot.Equal(&rr) {
		return h.BlockNumber, fmt.Sprintf("head fields do not belong to one event: %+v", h)
	}
	return h.BlockNumber, ""
}

func (w *rworld) exec(o *rop) {
	f := &rframe{op: o}
	w.mu.Lock()
	o.names, o.fired = nil, false
	bc := w.bc
	switch o.kind {
	case 'r':
		f.allowed = map[uint64]bool{w.head: true}
		for _, g := range w.stack { // commits already under way
			if g.op.kind == 'w' || g.op.kind == 'e' {
				f.allowed[w.logs] = true
			}
		}
	case 'w', 'e':
		if o.kind == 'w' {
			w.logs++
		}
		for _, g := range w.stack { // reads already under way overlap this commit
			if g.allowed != nil {
				g.allowed[w.logs] = true
			}
		}
	}
	val := w.logs
	w.stack = append(w.stack, f)
	w.mu.Unlock()

	switch o.kind {
	case 'r':
		got, bad := w.headValue(bc.L1Head())
		o.result = fmt.Sprint(got)
		w.mu.Lock()
		allowed := f.allowed
		overlapped := len(allowed) > 1 || o.inj != nil || len(w.stack) > 1
		w.mu.Unlock()
		switch {
		case bad != "":
			w.violate("reader: L1Head() unusable answer "+w.overlapTag(), map[string]any{"what": bad})
		case !allowed[got] && !overlapped:
			w.violate("reader: L1Head() differs from the committed head "+w.overlapTag(),
				map[string]any{"got_l2": got, "committed_l2": keys(allowed), "read": "in-history, overlapping nothing"})
		case !allowed[got]:
			w.violate("reader: overlapping L1Head() returned neither the old nor a committed head "+w.overlapTag(),
				map[string]any{"got_l2": got, "allowed_l2": keys(allowed)})
		}
	case 'w', 'e':
		before := len(w.emitted)
		c := l1.NewClient(rprov{w}, bc, log.NewNopZapLogger(),
			l1.WithEventListener(l1.SelectiveListener{OnNewL1HeadCb: func(h *core.L1Head) {
				w.mu.Lock()
				w.emitted = append(w.emitted, h.BlockNumber)
				w.mu.Unlock()
			}}), l1.WithCatchUpChunkSize(1000))
		err := c.CatchUpL1Head(context.Background())
		o.result = fmt.Sprint(val)
		w.mu.Lock()
		if val > 0 {
			w.head = val
		}
		em := append([]uint64(nil), w.emitted[before:]...)
		w.mu.Unlock()
		switch {
		case err != nil:
			w.violate("reader: L1 client commit fails "+w.overlapTag(), map[string]any{"err": err.Error(), "commit_l2": val})
		case val > 0 && (len(em) != 1 || em[0] != val):
			w.violate("reader: commit not announced exactly once "+w.overlapTag(), map[string]any{"announced": em, "commit_l2": val})
		case val == 0 && len(em) != 0:
			w.violate("reader: head announced although L1 has no state update "+w.overlapTag(), map[string]any{"announced": em})
		}
	case 'X':
		nb := chain.NewNode(w.sdb, w.newState) // outside the lock: a constructor may read the store (= scheduling points)
		w.mu.Lock()
		w.restarts++
		w.bc = nb
		w.mu.Unlock()
	}

	w.mu.Lock()
	for i, g := range w.stack {
		if g == f {
			w.stack = append(w.stack[:i], w.stack[i+1:]...)
			break
		}
	}
	o.pts = f.n
	w.mu.Unlock()
}

func keys(m map[uint64]bool) []uint64 {
	var out []uint64
	for k := range m {
		out = append(out, k)
	}
	for i := range out {
		for j := i + 1; j < len(out); j++ {
			if out[j] < out[i] {
				out[i], out[j] = out[j], out[i]
			}
		}
	}
	return out
}

type rresult struct {
	viol       *violation
	infra      string
	serialised bool
}

// runHistory replays a history on a fresh node and applies the terminal oracle.
func runHistory(newState bool, hist []*rop) rresult {
	w := &rworld{newState: newState, mem: memory.New(), history: hist}
	w.sdb = &schedDB{KeyValueStore: w.mem, pt: w.point}
	w.bc = chain.NewNode(w.sdb, newState)
	for _, o := range hist {
		w.exec(o)
		for _, d := range w.late {
			<-d
		}
		w.late = nil
		if w.viol != nil {
			break
		}
		for q := o; q != nil; q = q.inj {
			if q.inj != nil && !q.fired && !w.blocked {
				w.infra = fmt.Sprintf("scheduling point %d of %s was measured but not reached on replay: %v", q.at, q, histStrings(hist))
			}
		}
	}
	res := rresult{viol: w.viol, infra: w.infra, serialised: w.blocked}
	if res.viol != nil || res.infra != "" {
		return res
	}
	// terminal oracle; no scheduling from here on
	w.mu.Lock()
	w.blocked = true
	want := w.head
	w.mu.Unlock()
	tag := w.overlapTag()
	for i := 0; i < 2; i++ {
		got, bad := w.headValue(w.bc.L1Head())
		if bad != "" {
			w.violate("reader: L1Head() unusable answer "+tag, map[string]any{"what": bad, "later_read": i})
			break
		}
		if got != want {
			kind := "differs from"
			if got < want {
				kind = "regressed below"
			}
			var rs []string
			for _, o := range hist {
				rs = append(rs, o.results())
			}
			w.violate("reader: later L1Head() "+kind+" the committed head "+tag,
				map[string]any{"later_read": i, "got_l2": got, "committed_l2": want, "operation_results": rs})
			break
		}
	}
	if w.viol == nil {
		got, bad := w.headValue(core.GetL1Head(w.mem))
		if bad != "" || got != want {
			w.violate("reader: persisted head differs from the committed head "+tag, map[string]any{"got_l2": got, "committed_l2": want, "what": bad})
		}
	}
	if w.viol == nil {
		got, bad := w.headValue(chain.NewNode(w.sdb, newState).L1Head())
		if bad != "" || got != want {
			w.violate("reader: L1Head() after a restart differs from the committed head "+tag, map[string]any{"got_l2": got, "committed_l2": want, "what": bad})
		}
	}
	res.viol = w.viol
	return res
}

// ---------------------------------------------------------------------------------------------------------------
// enumeration

type rgen struct {
	r        *ev.Run
	newState bool
	maxLen   int
	nest     int
	stop     bool

	histories, overlaps, serialised, maxPts int64
	byShape                                 map[string]int64
	ptNames                                 map[string]int64
	outcomes                                map[string]int64
	samples                                 []map[string]any
	viols                                   []*violation
	collect                                 *[][]*rop // when set: histories of length 1 are collected instead of extended
}

func cloneOp(o *rop) *rop {
	if o == nil {
		return nil
	}
	c := *o
	c.names = append([]string(nil), o.names...)
	c.inj = cloneOp(o.inj)
	return &c
}

func cloneHist(h []*rop) []*rop {
	out := make([]*rop, len(h))
	for i, o := range h {
		out[i] = cloneOp(o)
	}
	return out
}

// may: may an operation of kind k be started inside the chain root..leaf? Single committer, no restart inside.
func may(root *rop, k byte) bool {
	if k == 'X' {
		return false
	}
	if k == 'r' {
		return true
	}
	for q := root; q != nil; q = q.inj {
		if q.kind == 'w' || q.kind == 'e' {
			return false
		}
	}
	return true
}

func (g *rgen) extend(hist []*rop) {
	if len(hist) >= g.maxLen || g.stop {
		return
	}
	for _, k := range []byte{'r', 'w', 'e', 'X'} {
		root := &rop{kind: k, at: -1}
		g.grow(hist, root, root, 0)
	}
}

// grow runs prefix+root (leaf = innermost operation of root's chain, so far without an operation inside it), extends the
// history, and then tries every (scheduling point of leaf, permitted kind) as one more level of overlap.
func (g *rgen) grow(prefix []*rop, root, leaf *rop, depth int) {
	if g.stop {
		return
	}
	if g.r.OutOfTime() {
		g.stop = true
		return
	}
	hist := append(append([]*rop(nil), prefix...), root)
	res := runHistory(g.newState, hist)
	g.histories++
	n := leaf.pts // measured by this run, in which nothing runs inside leaf
	if res.infra != "" {
		g.r.Infra("%s", res.infra)
		g.stop = true
		return
	}
	if res.serialised {
		g.serialised++
	}
	if s := root.shape(); s != "" {
		g.overlaps++
		g.byShape[s]++
		for q := root; q.inj != nil; q = q.inj {
			g.ptNames[string(q.kind)+":"+q.names[q.at]]++
		}
	}
	if res.viol != nil {
		if len(g.viols) < 2000 { // written out later, shortest history first; the cap bounds memory, not the search
			g.viols = append(g.viols, res.viol)
		}
		g.outcomes["violation"]++
		return
	}
	var sig []string
	for _, o := range hist {
		sig = append(sig, o.results())
	}
	g.outcomes[fmt.Sprintf("len=%d last=%s", len(hist), root.results())]++
	if len(hist) >= 3 && len(g.samples) < 2 && hist[0].kind == 'w' && hist[len(hist)-2].kind == 'X' && root.kind == 'r' && root.inj != nil && root.inj.kind == 'w' {
		g.samples = append(g.samples, map[string]any{"category": "reader-register", "backend_new_state": g.newState, "history": histStrings(hist), "results": sig})
	}
	if g.collect != nil {
		*g.collect = append(*g.collect, cloneHist(hist))
	} else {
		g.extend(hist)
	}
	if depth >= g.nest || leaf.kind == 'X' {
		return
	}
	if int64(n) > g.maxPts {
		g.maxPts = int64(n)
	}
	for p := 0; p < n; p++ {
		for _, k := range []byte{'r', 'w', 'e'} {
			leaf.at, leaf.inj = -1, nil
			if !may(root, k) {
				continue
			}
			leaf.at, leaf.inj = p, &rop{kind: k, at: -1}
			g.grow(prefix, root, leaf.inj, depth+1)
		}
	}
	leaf.at, leaf.inj = -1, nil
}

func newGen(r *ev.Run, newState bool, maxLen, nest int) *rgen {
	return &rgen{r: r, newState: newState, maxLen: maxLen, nest: nest, byShape: map[string]int64{}, ptNames: map[string]int64{}, outcomes: map[string]int64{}}
}

// readerSweep enumerates part R and reports through r. Two bounds per tier, the second a deeper overlap on shorter
// histories: quick (4 operations, 2 overlapping) + (2 operations, 3 overlapping); thorough (5, 2) + (3, 3).
func readerSweep(r *ev.Run) {
	type bound struct{ maxLen, nest int }
	bounds := ev.Pick(r, []bound{{4, 1}, {2, 2}}, []bound{{5, 1}, {3, 2}})
	if s := os.Getenv("VERIF_C17_RBOUNDS"); s != "" { // development aid: "len,nest"
		var b bound
		fmt.Sscanf(s, "%d,%d", &b.maxLen, &b.nest)
		bounds = []bound{b}
	}
	t0 := time.Now()
	type task struct {
		newState bool
		b        bound
		hist     []*rop
	}
	var tasks []task
	var gens []*rgen
	var rule []string
	for _, b := range bounds {
		rule = append(rule, fmt.Sprintf("<=%d operations with <=%d overlapping", b.maxLen, b.nest+1))
		for _, ns := range []bool{false, true} {
			var first [][]*rop
			g := newGen(r, ns, b.maxLen, b.nest)
			g.collect = &first
			g.extend(nil)
			gens = append(gens, g)
			for _, h := range first {
				tasks = append(tasks, task{ns, b, h})
			}
		}
	}
	r.Set("reader_bounds", strings.Join(rule, "; ")+"; both state backends")
	sub := make([]*rgen, len(tasks))
	ev.Par(len(tasks), 16, func(i int) {
		g := newGen(r, tasks[i].newState, tasks[i].b.maxLen, tasks[i].b.nest)
		sub[i] = g
		g.extend(tasks[i].hist)
	})
	gens = append(gens, sub...)
	var histories, overlaps, serialised, maxPts int64
	shape, names, outcomes := map[string]int64{}, map[string]int64{}, map[string]int64{}
	stopped := false
	nsamp := 0
	var viols []*violation
	for _, g := range gens {
		histories += g.histories
		overlaps += g.overlaps
		serialised += g.serialised
		maxPts = max(maxPts, g.maxPts)
		stopped = stopped || g.stop
		viols = append(viols, g.viols...)
		for k, v := range g.byShape {
			shape[k] += v
		}
		for k, v := range g.ptNames {
			names[k] += v
		}
		for k, v := range g.outcomes {
			outcomes[k] += v
		}
		for _, s := range g.samples {
			if nsamp < 2 {
				nsamp++
				r.Sample(s)
			}
		}
	}
	// shortest failing history first: it becomes the written-out case of its key
	sort.SliceStable(viols, func(i, j int) bool {
		return len(viols[i].detail["history"].([]string)) < len(viols[j].detail["history"].([]string))
	})
	for _, v := range viols {
		r.Violate(v.key, v.detail)
	}
	if len(viols) > 0 {
		r.Outcome("reader-part violation")
	}
	if stopped && r.Violations() == 0 {
		r.Incomplete("time budget hit in the reader/committer overlap enumeration (part R)")
	}
	r.Set("reader_histories", histories)
	r.Add("evaluations", histories)
	r.Set("reader_histories_with_overlap", overlaps)
	r.Set("reader_overlaps_serialised_by_a_lock", serialised)
	r.Set("reader_scheduling_points_per_operation_max", maxPts)
	for k, v := range shape {
		r.Set("reader_overlap_"+k, v)
	}
	for k, v := range names {
		r.Set("reader_point_"+k, v)
	}
	r.Set("reader_distinct_outcomes", int64(len(outcomes)))
	r.Set("reader_seconds", int64(time.Since(t0).Seconds()))
	if maxPts == 0 && r.Violations() == 0 {
		r.Infra("part R: no operation passed a single KV-store scheduling point - the database proxy is not on the path of L1Head()/SetL1Head()")
	}
}
