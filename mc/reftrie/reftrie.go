// Package reftrie is an independent reference for Starknet's Merkle-Patricia commitments, written
// from the protocol description (not from juno's trie code). Trusted base: the Pedersen/Poseidon
// primitives and felt arithmetic only.
package reftrie

import (
	"math/big"
	"sort"

	"github.com/NethermindEth/juno/core/crypto"
	"github.com/NethermindEth/juno/core/felt"
)

type HashFn func(a, b *felt.Felt) felt.Felt

var (
	Pedersen HashFn = crypto.Pedersen
	Poseidon HashFn = crypto.Poseidon
)

type KV struct {
	K *big.Int
	V felt.Felt
}

// Root returns the commitment of the key/value set on a binary trie of the given height.
// Zero values are absent keys. The set is a pure function input: order does not matter.
func Root(kvs []KV, height int, h HashFn) felt.Felt {
	var live []KV
	for _, kv := range kvs {
		if !kv.V.IsZero() {
			live = append(live, kv)
		}
	}
	sort.Slice(live, func(i, j int) bool { return live[i].K.Cmp(live[j].K) < 0 })
	return node(live, height, h)
}

// node: commitment of the sub-trie of the given height containing keys (already restricted to the
// low `height` bits being significant; higher bits are equal among all keys).
func node(kvs []KV, height int, h HashFn) felt.Felt {
	if len(kvs) == 0 {
		return felt.Zero
	}
	// longest common prefix (within the low `height` bits) of all keys = of first and last (sorted)
	l := height
	if len(kvs) > 1 {
		first, last := kvs[0].K, kvs[len(kvs)-1].K
		l = 0
		for l < height && first.Bit(height-1-l) == last.Bit(height-1-l) {
			l++
		}
	}
	var child felt.Felt
	if l == height {
		child = kvs[0].V // leaf
	} else {
		bit := height - 1 - l
		split := sort.Search(len(kvs), func(i int) bool { return kvs[i].K.Bit(bit) == 1 })
		left := node(kvs[:split], bit, h)
		right := node(kvs[split:], bit, h)
		child = h(&left, &right)
	}
	if l == 0 {
		return child
	}
	// edge node: H(child, path) + length
	path := new(big.Int)
	for i := 0; i < l; i++ {
		path.Lsh(path, 1)
		if kvs[0].K.Bit(height-1-i) == 1 {
			path.SetBit(path, 0, 1)
		}
	}
	var pf, lf felt.Felt
	pf.SetBigInt(path)
	lf.SetUint64(uint64(l))
	e := h(&child, &pf)
	e.Add(&e, &lf)
	return e
}

func KVOf(k, v *felt.Felt) KV { return KV{K: k.BigInt(new(big.Int)), V: *v} }

// ContractLeaf = H(H(H(classHash, storageRoot), nonce), 0)
func ContractLeaf(classHash, storageRoot, nonce *felt.Felt) felt.Felt {
	a := crypto.Pedersen(classHash, storageRoot)
	b := crypto.Pedersen(&a, nonce)
	return crypto.Pedersen(&b, &felt.Zero)
}

var (
	classLeafVersion = new(felt.Felt).SetBytes([]byte("CONTRACT_CLASS_LEAF_V0"))
	stateVersion     = new(felt.Felt).SetBytes([]byte("STARKNET_STATE_V0"))
)

// ClassLeaf = Poseidon("CONTRACT_CLASS_LEAF_V0", compiledClassHash)
func ClassLeaf(casm *felt.Felt) felt.Felt { return crypto.Poseidon(classLeafVersion, casm) }

// StateCommitment combines the two roots. Before 0.14.0 a zero class root yields the bare contract
// root; from 0.14.0 on Poseidon is always applied (unless both are zero).
func StateCommitment(contractRoot, classRoot *felt.Felt, from0140 bool) felt.Felt {
	if contractRoot.IsZero() && classRoot.IsZero() {
		return felt.Zero
	}
	if classRoot.IsZero() && !from0140 {
		return *contractRoot
	}
	return crypto.PoseidonElems(stateVersion, contractRoot, classRoot)
}
