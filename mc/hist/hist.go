// Package hist is the explicit-state search over node histories: alphabet {store(next block from the
// block alphabet), revertHead}. A state is the concrete key/value image of the real store; successors
// are produced by copying the image, opening a FRESH real Blockchain on it (= process restart) and
// applying one operation. Equal images have equal futures by determinism, so no abstraction argument
// is needed for the deduplication.
package hist

import (
	"fmt"
	"strings"
	"sync"

	"verif/mc/chain"
	"verif/mc/ev"

	"github.com/NethermindEth/juno/blockchain"
	"github.com/NethermindEth/juno/db/memory"
)

type Node struct {
	DB       *memory.Database
	Chain    []*chain.Entry // reference chain currently stored (index = block number)
	Reverted []*chain.Entry // blocks that were stored and later reverted (for "reverted hash" queries)
	Path     []string       // op labels from the empty node
	Ops      []*chain.Entry // the same history as entries: a stored block, or nil for a revert
	Key      string
}

func (n *Node) Head() *chain.Entry {
	if len(n.Chain) == 0 {
		return nil
	}
	return n.Chain[len(n.Chain)-1]
}

func (n *Node) PathString() string { return strings.Join(n.Path, " ; ") }

type Config struct {
	NewState  bool
	Depth     int
	VersionAt func(number uint64) string
	// MaxAlphabet caps the number of alphabet entries used per state (0 = all); entries are ordered
	// simplest-first so a cap keeps a prefix.
	MaxAlphabet int
	Filter      func(parent *Node, nm chain.Named) bool // optional: keep this successor?
	// Alphabet, if set, replaces chain.Alphabet as the source of the candidate next blocks (a property-local
	// superset of the shared block alphabet); nil = chain.Alphabet.
	Alphabet func(st *chain.State, number uint64, version string) []chain.Named
	NoRevert bool
	// Transform, if set, is applied to the private copy of the image before the node that performs the
	// next operation is opened (e.g. "run a schema migration between two updates").
	Transform func(d *memory.Database) error
	// Visit is called once per distinct state with a fresh Blockchain opened on a private copy.
	Visit func(n *Node, bc *blockchain.Blockchain)
	// OnStore / OnRevert are called for every transition (also those leading to known states).
	// before is the image before the op; the node's DB is the image after.
	OnStore  func(parent, child *Node, nm chain.Named)
	OnRevert func(parent, child *Node)
	// OnStoreFail / OnRevertFail: a valid block was refused / the head could not be reverted. Which
	// property that violates is the caller's business (C01/C04); by default it is only counted.
	OnStoreFail  func(parent *Node, nm chain.Named, err error)
	OnRevertFail func(parent *Node, err error)
	Workers      int
	Run          *ev.Run
	Label        string
}

type Stats struct {
	States, Transitions, MaxDepth int
	PerDepth                      []int
}

// Explore runs the breadth-first search and returns the statistics. Any unexpected failure of store or
// revert on a valid block is reported as a violation by the caller-supplied hooks or here.
func Explore(cfg Config) Stats {
	r := cfg.Run
	if cfg.Workers == 0 {
		cfg.Workers = 12
	}
	root := &Node{DB: memory.New()}
	root.Key = chain.ImageHash(root.DB)
	seen := map[string]bool{root.Key: true}
	var mu sync.Mutex
	frontier := []*Node{root}
	st := Stats{States: 1}
	visit := func(n *Node) {
		if cfg.Visit != nil {
			cfg.Visit(n, chain.NewNode(n.DB.Copy(), cfg.NewState))
		}
	}
	visit(root)
	for depth := 0; depth < cfg.Depth && len(frontier) > 0; depth++ {
		var next []*Node
		ev.Par(len(frontier), cfg.Workers, func(i int) {
			if r != nil && r.OutOfTime() {
				r.Incomplete(fmt.Sprintf("%s: search stopped at depth %d", cfg.Label, depth))
				return
			}
			p := frontier[i]
			var number uint64
			var pst *chain.State
			if h := p.Head(); h != nil {
				number, pst = h.Block.Number+1, h.State
			}
			alphaOf := cfg.Alphabet
			if alphaOf == nil {
				alphaOf = chain.Alphabet
			}
			alpha := alphaOf(pst, number, cfg.VersionAt(number))
			if cfg.MaxAlphabet > 0 && len(alpha) > cfg.MaxAlphabet {
				alpha = alpha[:cfg.MaxAlphabet]
			}
			var kids []*Node
			for _, nm := range alpha {
				if cfg.Filter != nil && !cfg.Filter(p, nm) {
					continue
				}
				e, err := chain.Build(p.Head(), nm.Spec)
				if err != nil {
					r.Infra("alphabet produced an invalid block %s: %v", nm.Name, err)
				}
				d := p.DB.Copy()
				if cfg.Transform != nil {
					if err := cfg.Transform(d); err != nil {
						r.Infra("transform failed on %s: %v", p.PathString(), err)
					}
				}
				bc := chain.NewNode(d, cfg.NewState)
				if err := chain.StoreSync(bc, e.Fresh(p.Head())); err != nil {
					if cfg.OnStoreFail != nil {
						cfg.OnStoreFail(p, nm, err)
					} else if r != nil {
						r.Outcome("valid-block-rejected (reported by C01)")
					}
					continue
				}
				c := &Node{DB: d, Chain: append(append([]*chain.Entry{}, p.Chain...), e), Reverted: p.Reverted,
					Path: append(append([]string{}, p.Path...), "store:"+nm.Name), Ops: append(append([]*chain.Entry{}, p.Ops...), e)}
				c.Key = chain.ImageHash(d)
				if cfg.OnStore != nil {
					cfg.OnStore(p, c, nm)
				}
				kids = append(kids, c)
			}
			if !cfg.NoRevert && len(p.Chain) > 0 {
				d := p.DB.Copy()
				bc := chain.NewNode(d, cfg.NewState)
				if err := bc.RevertHead(); err != nil {
					if cfg.OnRevertFail != nil {
						cfg.OnRevertFail(p, err)
					} else if r != nil {
						r.Outcome("revert-head-fails (reported by C04)")
					}
				} else {
					c := &Node{DB: d, Chain: append([]*chain.Entry{}, p.Chain[:len(p.Chain)-1]...),
						Reverted: append(append([]*chain.Entry{}, p.Reverted...), p.Head()),
						Path:     append(append([]string{}, p.Path...), "revert"), Ops: append(append([]*chain.Entry{}, p.Ops...), nil)}
					c.Key = chain.ImageHash(d)
					if cfg.OnRevert != nil {
						cfg.OnRevert(p, c)
					}
					kids = append(kids, c)
				}
			}
			mu.Lock()
			st.Transitions += len(kids)
			var fresh []*Node
			for _, c := range kids {
				if !seen[c.Key] {
					seen[c.Key] = true
					fresh = append(fresh, c)
				}
			}
			next = append(next, fresh...)
			mu.Unlock()
			for _, c := range fresh {
				visit(c)
			}
		})
		st.States += len(next)
		st.PerDepth = append(st.PerDepth, len(next))
		if len(next) > 0 {
			st.MaxDepth = depth + 1
		}
		frontier = next
	}
	return st
}

func backend(newState bool) string {
	if newState {
		return " [new-state]"
	}
	return " [legacy-state]"
}

// Exotic tags histories containing an operation no real network produces (all slots of a system
// contract written back to zero); violation keys carry the tag so such findings stay separable.
func (n *Node) Exotic() string {
	for _, p := range n.Path {
		if strings.HasSuffix(p, "sys1.clear") {
			return " [history clears system contract 0x1]"
		}
	}
	return ""
}

func LastOp(n *Node) string { return lastOp(n) }

// ReplayLongLived re-executes the node's whole history on ONE long-lived Blockchain over a fresh store (no restart
// between operations), so that in-memory caches of the node live across stores and reverts.
func (n *Node) ReplayLongLived(newState bool) (*blockchain.Blockchain, *memory.Database, error) {
	d := memory.New()
	bc := chain.NewNode(d, newState)
	var stack []*chain.Entry
	for i, e := range n.Ops {
		if e == nil {
			if err := bc.RevertHead(); err != nil {
				return nil, nil, fmt.Errorf("op %d revert: %w", i, err)
			}
			stack = stack[:len(stack)-1]
			continue
		}
		var parent *chain.Entry
		if len(stack) > 0 {
			parent = stack[len(stack)-1]
		}
		if err := chain.StoreSync(bc, e.Fresh(parent)); err != nil {
			return nil, nil, fmt.Errorf("op %d store: %w", i, err)
		}
		stack = append(stack, e)
	}
	return bc, d, nil
}

func lastOp(n *Node) string {
	if len(n.Path) == 0 {
		return ""
	}
	return "after " + n.Path[len(n.Path)-1]
}

func Backend(newState bool) string { return backend(newState) }
