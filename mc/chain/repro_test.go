package chain

import (
	"testing"

	"github.com/NethermindEth/juno/core/felt"
	"github.com/NethermindEth/juno/db/memory"
)

func TestReproSysRevert(t *testing.T) {
	for _, addr := range []felt.Felt{Sys1, AddrA} {
		var chainE []*Entry
		db := memory.New()
		bc := NewNode(db, true)
		var parent *Entry
		if addr.Equal(&AddrA) {
			al := Alphabet(nil, 0, "0.13.2")
			for _, nm := range al {
				if nm.Name == "deployA" {
					e, _ := Build(nil, nm.Spec)
					if err := StoreSync(bc, e); err != nil {
						t.Fatal(err)
					}
					parent = e
				}
			}
		}
		for i := 0; i < 2; i++ {
			d := sd()
			d.StorageDiffs[addr] = map[felt.Felt]*felt.Felt{FV(uint64(i)): F(0xB10C + uint64(i))}
			e, err := Build(parent, BlockSpec{Version: "0.13.2", Diff: &d})
			if err != nil {
				t.Fatal(err)
			}
			if err := StoreSync(bc, e); err != nil {
				t.Fatal(err)
			}
			chainE = append(chainE, e)
			parent = e
		}
		if err := bc.RevertHead(); err != nil {
			t.Fatal(err)
		}
		bc = NewNode(db, true)
		sr, cl, err := bc.HeadState()
		if err != nil {
			t.Fatal(err)
		}
		for i := 0; i < 2; i++ {
			v, err := sr.ContractStorage(&addr, F(uint64(i)))
			t.Logf("addr=%s slot %d = %s err=%v", addr.String(), i, v.String(), err)
		}
		cl()
	}
}
