package chain

import (
	"os"

	"bytes"
	"crypto/sha256"
	"encoding/hex"
	"sort"
	"verif/mc/poisondb"

	"github.com/NethermindEth/juno/blockchain"
	"github.com/NethermindEth/juno/db"
	"github.com/NethermindEth/juno/db/memory"
	_ "github.com/NethermindEth/juno/encoder/registry"
)

// NewNode opens a real juno Blockchain on the store with the chosen state backend. juno reads the store through
// verif/mc/poisondb: every read buffer the store lends (Get callback argument, UncopiedValue) is scribbled over when the
// loan ends, so a retained store buffer - harmless on the in-memory backend, garbage on a recycling one - shows up as a
// wrong answer in whichever check is reading. VERIF_NO_POISON=1 switches this off (development aid).
func NewNode(d db.KeyValueStore, newState bool) *blockchain.Blockchain {
	if os.Getenv("VERIF_NO_POISON") == "" {
		if _, already := d.(*poisondb.DB); !already {
			d = poisondb.Wrap(d)
		}
	}
	return blockchain.New(d, Net, blockchain.WithNewState(newState))
}

// StoreSync feeds an entry through the sync path: SanityCheckNewHeight then Store.
func StoreSync(bc *blockchain.Blockchain, e *Entry) error {
	cm, err := bc.SanityCheckNewHeight(e.Block, e.SU, e.Classes)
	if err != nil {
		return err
	}
	return bc.Store(e.Block, cm, e.SU, e.Classes)
}

type KV struct{ K, V []byte }

// Image returns the full sorted key/value content of a store.
func Image(d db.KeyValueReader) []KV {
	it, err := d.NewIterator(nil, false)
	if err != nil {
		panic(err)
	}
	defer it.Close()
	var out []KV
	for ok := it.First(); ok; ok = it.Next() {
		v, err := it.Value()
		if err != nil {
			panic(err)
		}
		out = append(out, KV{append([]byte{}, it.Key()...), append([]byte{}, v...)})
	}
	sort.Slice(out, func(i, j int) bool { return bytes.Compare(out[i].K, out[j].K) < 0 })
	return out
}

func ImageHash(d db.KeyValueReader) string {
	h := sha256.New()
	for _, kv := range Image(d) {
		var l [8]byte
		l[0], l[1], l[2], l[3] = byte(len(kv.K)>>8), byte(len(kv.K)), byte(len(kv.V)>>16), byte(len(kv.V)>>8)
		l[4] = byte(len(kv.V))
		h.Write(l[:])
		h.Write(kv.K)
		h.Write(kv.V)
	}
	return hex.EncodeToString(h.Sum(nil)[:16])
}

// DiffImages lists keys (hex, with bucket byte first) that differ between two images.
func DiffImages(a, b []KV) []string {
	ma := map[string]string{}
	for _, kv := range a {
		ma[string(kv.K)] = string(kv.V)
	}
	var out []string
	seen := map[string]bool{}
	for _, kv := range b {
		seen[string(kv.K)] = true
		if v, ok := ma[string(kv.K)]; !ok {
			out = append(out, "+"+hex.EncodeToString(kv.K))
		} else if v != string(kv.V) {
			out = append(out, "~"+hex.EncodeToString(kv.K))
		}
	}
	for _, kv := range a {
		if !seen[string(kv.K)] {
			out = append(out, "-"+hex.EncodeToString(kv.K))
		}
	}
	sort.Strings(out)
	return out
}

func MemCopy(d *memory.Database) *memory.Database { return d.Copy() }
