package chain

import (
	"crypto/sha256"
	"encoding/hex"
	"fmt"
	"sort"

	"github.com/NethermindEth/juno/blockchain"
	"github.com/NethermindEth/juno/core"
	"github.com/NethermindEth/juno/core/felt"
	"github.com/NethermindEth/juno/l1/eth"
	"github.com/davecgh/go-spew/spew"
)

var dumper = spew.ConfigState{Indent: " ", DisablePointerAddresses: true, DisableCapacities: true, SortKeys: true, DisableMethods: true}

func Dump(v any) string { return dumper.Sdump(v) }

func short(s string) string {
	h := sha256.Sum256([]byte(s))
	return hex.EncodeToString(h[:8])
}

// Probe is the set of identifiers a sweep asks about: every block / tx / message hash ever seen in the
// explored history (including reverted ones) so that "no longer there" answers are compared too.
type Probe struct {
	MaxNumber   uint64
	BlockHashes []felt.Felt
	TxHashes    []felt.Felt
	MsgHashes   []eth.Hash
}

func (p *Probe) AddEntry(e *Entry) {
	if e.Block.Number+1 > p.MaxNumber {
		p.MaxNumber = e.Block.Number + 1
	}
	p.BlockHashes = append(p.BlockHashes, *e.Block.Hash)
	for _, tx := range e.Block.Transactions {
		p.TxHashes = append(p.TxHashes, *tx.Hash())
		if l1, ok := tx.(*core.L1HandlerTransaction); ok {
			p.MsgHashes = append(p.MsgHashes, eth.HashFromBytes(l1.MessageHash()))
		}
	}
}

var (
	probeAddrs = []felt.Felt{AddrA, AddrB, AddrC, Sys1, Sys2, FV(0xDEAD)}
	probeSlots = []felt.Felt{Slot0, Slot1, FV(0), FV(1), FV(2), FV(7), FV(0x999)}
)

func probeClasses() []felt.Felt {
	_, h0 := Cairo0(0)
	_, h1, _, _ := Sierra(1)
	_, h2, _, _ := Sierra(2)
	return []felt.Felt{h0, h1, h2, FV(0xBADC1A55)}
}

// Obs is a canonical record of every answer the Reader API gives for the probe.
type Obs struct {
	Items map[string]string // question -> digest of the answer ("ERR:<msg>" for errors)
	Full  map[string]string // question -> full dump (only kept when keepFull)
}

func (o *Obs) put(q string, v any, err error, keep bool) {
	if err != nil {
		o.Items[q] = "ERR"
		if keep {
			o.Full[q] = "ERR: " + err.Error()
		}
		return
	}
	s := Dump(v)
	o.Items[q] = short(s)
	if keep {
		o.Full[q] = s
	}
}

// Observe sweeps the whole blockchain.Reader surface (blocks, headers, transactions, receipts, status,
// state updates, commitments, lookups, head + historical state, classes, event queries).
func Observe(bc *blockchain.Blockchain, p *Probe, keep bool) *Obs {
	o := &Obs{Items: map[string]string{}, Full: map[string]string{}}
	h, err := bc.Height()
	o.put("Height", h, err, keep)
	hd, err := bc.Head()
	o.put("Head", hd, err, keep)
	hh, err := bc.HeadsHeader()
	o.put("HeadsHeader", hh, err, keep)
	l1, err := bc.L1Head()
	o.put("L1Head", l1, err, keep)
	for n := uint64(0); n <= p.MaxNumber; n++ {
		q := func(s string) string { return fmt.Sprintf("%s(%d)", s, n) }
		b, err := bc.BlockByNumber(n)
		o.put(q("BlockByNumber"), b, err, keep)
		bh, err := bc.BlockHeaderByNumber(n)
		o.put(q("BlockHeaderByNumber"), bh, err, keep)
		hs, err := bc.BlockHeaderHashByNumber(n)
		o.put(q("BlockHeaderHashByNumber"), hs, err, keep)
		gr, err := bc.GlobalStateRootByBlockNumber(n)
		o.put(q("GlobalStateRootByBlockNumber"), gr, err, keep)
		tc, err := bc.BlockTransactionCountByNumber(n)
		o.put(q("BlockTransactionCountByNumber"), tc, err, keep)
		txs, err := bc.TransactionsByBlockNumber(n)
		o.put(q("TransactionsByBlockNumber"), txs, err, keep)
		txs2, rcs, err := bc.TransactionsAndReceiptsByBlockNumber(n)
		o.put(q("TransactionsAndReceiptsByBlockNumber"), []any{txs2, rcs}, err, keep)
		ths, err := bc.TransactionHashesByBlockNumber(n)
		o.put(q("TransactionHashesByBlockNumber"), ths, err, keep)
		su, err := bc.StateUpdateByNumber(n)
		o.put(q("StateUpdateByNumber"), su, err, keep)
		cm, err := bc.BlockCommitmentsByNumber(n)
		o.put(q("BlockCommitmentsByNumber"), cm, err, keep)
		for i := uint64(0); i < 4; i++ {
			tx, err := bc.TransactionByBlockNumberAndIndex(n, i)
			o.put(fmt.Sprintf("TransactionByBlockNumberAndIndex(%d,%d)", n, i), tx, err, keep)
			tx2, rc, bhh, err := bc.TransactionAndReceiptByBlockNumberAndIndex(n, i)
			o.put(fmt.Sprintf("TransactionAndReceiptByBlockNumberAndIndex(%d,%d)", n, i), []any{tx2, rc, bhh}, err, keep)
			st, err := bc.TransactionExecutionStatusByBlockNumberAndIndex(n, i)
			o.put(fmt.Sprintf("TransactionExecutionStatusByBlockNumberAndIndex(%d,%d)", n, i), st, err, keep)
		}
		sr, cl, err := bc.StateAtBlockNumber(n)
		if err != nil {
			o.put(q("StateAtBlockNumber"), nil, err, keep)
		} else {
			observeState(o, q("StateAtBlockNumber"), sr, keep)
			cl()
		}
	}
	for i := range p.BlockHashes {
		bhash := p.BlockHashes[i]
		q := func(s string) string { return fmt.Sprintf("%s(%s)", s, bhash.ShortString()) }
		b, err := bc.BlockByHash(&bhash)
		o.put(q("BlockByHash"), b, err, keep)
		bh, err := bc.BlockHeaderByHash(&bhash)
		o.put(q("BlockHeaderByHash"), bh, err, keep)
		bn, err := bc.BlockNumberByHash(&bhash)
		o.put(q("BlockNumberByHash"), bn, err, keep)
		su, err := bc.StateUpdateByHash(&bhash)
		o.put(q("StateUpdateByHash"), su, err, keep)
		sr, cl, err := bc.StateAtBlockHash(&bhash)
		if err != nil {
			o.put(q("StateAtBlockHash"), nil, err, keep)
		} else {
			observeState(o, q("StateAtBlockHash"), sr, keep)
			cl()
		}
	}
	for i := range p.TxHashes {
		th := p.TxHashes[i]
		q := func(s string) string { return fmt.Sprintf("%s(%s)", s, th.ShortString()) }
		tx, err := bc.TransactionByHash(&th)
		o.put(q("TransactionByHash"), tx, err, keep)
		rc, bh, bn, err := bc.Receipt(&th)
		o.put(q("Receipt"), []any{rc, bh, bn}, err, keep)
		bn2, idx, err := bc.BlockNumberAndIndexByTxHash((*felt.TransactionHash)(&th))
		o.put(q("BlockNumberAndIndexByTxHash"), []uint64{bn2, idx}, err, keep)
	}
	for i := range p.MsgHashes {
		mh := p.MsgHashes[i]
		th, err := bc.L1HandlerTxnHash(&mh)
		o.put(fmt.Sprintf("L1HandlerTxnHash(%s)", mh.Hex()[:12]), th, err, keep)
	}
	if sr, cl, err := bc.HeadState(); err != nil {
		o.put("HeadState", nil, err, keep)
	} else {
		observeState(o, "HeadState", sr, keep)
		cl()
	}
	// event queries (exactness under paging is C09's business; here: same answers on both nodes)
	aA, aB := felt.Address(AddrA), felt.Address(AddrB)
	for fi, f := range []struct {
		addrs []felt.Address
		keys  [][]felt.Felt
	}{{nil, nil}, {[]felt.Address{aA}, nil}, {[]felt.Address{aB}, [][]felt.Felt{{Key1}}}, {nil, [][]felt.Felt{{}, {Key2}}}} {
		ef, err := bc.EventFilter(f.addrs, f.keys, nil)
		if err != nil {
			o.put(fmt.Sprintf("Events[%d]", fi), nil, err, keep)
			continue
		}
		var all []blockchain.FilteredEvent
		var tok *blockchain.ContinuationToken
		var ferr error
		for guard := 0; guard < 1000; guard++ {
			evs, next, err := ef.Events(tok, 2)
			if err != nil {
				ferr = err
				break
			}
			all = append(all, evs...)
			if next.IsEmpty() {
				break
			}
			n := next
			tok = &n
		}
		ef.Close()
		o.put(fmt.Sprintf("Events[%d]", fi), all, ferr, keep)
	}
	return o
}

func observeState(o *Obs, pfx string, sr core.StateReader, keep bool) {
	for i := range probeAddrs {
		a := probeAddrs[i]
		ch, err := sr.ContractClassHash(&a)
		o.put(fmt.Sprintf("%s.ClassHash(%s)", pfx, a.ShortString()), ch, err, keep)
		nc, err := sr.ContractNonce(&a)
		o.put(fmt.Sprintf("%s.Nonce(%s)", pfx, a.ShortString()), nc, err, keep)
		for j := range probeSlots {
			s := probeSlots[j]
			v, err := sr.ContractStorage(&a, &s)
			if err != nil {
				v = felt.Zero // nonexistent contract: error and zero are the same observation
				err = nil
			}
			o.put(fmt.Sprintf("%s.Storage(%s,%s)", pfx, a.ShortString(), s.ShortString()), v, err, keep)
		}
	}
	for _, h := range probeClasses() {
		h := h
		dc, err := sr.Class(&h)
		o.put(fmt.Sprintf("%s.Class(%s)", pfx, h.ShortString()), dc, err, keep)
		sh := felt.SierraClassHash(h)
		c1, err := sr.CompiledClassHash(&sh)
		o.put(fmt.Sprintf("%s.Casm(%s)", pfx, h.ShortString()), c1, err, keep)
	}
}

// DiffObs lists the questions whose answers differ.
func DiffObs(a, b *Obs) []string {
	var out []string
	for q, v := range a.Items {
		if b.Items[q] != v {
			out = append(out, q)
		}
	}
	for q := range b.Items {
		if _, ok := a.Items[q]; !ok {
			out = append(out, q)
		}
	}
	sort.Strings(out)
	return out
}
