package chain

import (
	"github.com/NethermindEth/juno/core"
	"github.com/NethermindEth/juno/core/felt"
)

// Named is a block spec with a short human-readable label (used in traces and violation details).
type Named struct {
	Name string
	Spec BlockSpec
}

func ev(from felt.Felt, keys ...felt.Felt) EvSpec {
	return EvSpec{From: from, Keys: keys, Data: []felt.Felt{FV(0xDA7A)}}
}

// stdTxs: a small transaction list whose shape depends on i, so different blocks carry different
// kinds, events (addresses A/B x keys k1/k2, incl. a tx with two events and one with none) and messages.
func stdTxs(i int, n uint64) []TxSpec {
	switch i % 4 {
	case 0:
		return nil
	case 1:
		return []TxSpec{{Kind: "invoke3", Salt: n*16 + 1, Events: []EvSpec{ev(AddrA, Key1)}}}
	case 2:
		return []TxSpec{
			{Kind: "invoke1", Salt: n*16 + 2, Events: []EvSpec{ev(AddrA, Key1, Key2), ev(AddrB, Key2)}, Msgs: 1},
			{Kind: "l1handler0", Salt: n*16 + 3},
		}
	default:
		return []TxSpec{
			{Kind: "deployacc3", Salt: n*16 + 4, Events: []EvSpec{ev(AddrB, Key1)}, Reverted: true},
			{Kind: "declare2", Salt: n*16 + 5},
			{Kind: "invoke0", Salt: n*16 + 6, Events: []EvSpec{ev(AddrB, Key2, Key1), ev(AddrA, Key2), ev(AddrA, Key1)}},
		}
	}
}

func sd() core.StateDiff { return core.EmptyStateDiff() }

// Alphabet returns every candidate next block that is valid on top of st (nil-safe for genesis).
// It covers: deploy, replace class, nonce bumps, storage writes (incl. write-back-to-zero, rewrite of
// the same value, zero to a never-written slot), declarations v0/v1, CASM migration, the system
// contracts 0x1/0x2, deploy-then-touch in one block, and blocks with no state change.
func Alphabet(st *State, number uint64, version string) []Named {
	if st == nil {
		st = NewState()
	}
	var out []Named
	add := func(name string, d core.StateDiff, classes map[felt.Felt]core.ClassDefinition) {
		i := len(out)
		out = append(out, Named{name, BlockSpec{Version: version, Timestamp: 1000 + number*10, Txs: stdTxs(i+int(number), number), Diff: &d,
			Classes: classes, Blob: (i+int(number))%2 == 1}})
	}
	c0, h0 := Cairo0(0)
	s1, sh1, c1v1, c1v2 := Sierra(1)
	s2, sh2, c2v1, c2v2 := Sierra(2)
	v2 := ge(version, "0.14.1")
	casm1, casm2 := c1v1, c2v1
	if v2 {
		casm1, casm2 = c1v2, c2v2
	}
	_, hasC0 := st.Classes[h0]
	r1, hasS1 := st.Classes[sh1]
	_, hasS2 := st.Classes[sh2]
	a, hasA := st.Contracts[AddrA]
	_, hasB := st.Contracts[AddrB]
	cc, hasC := st.Contracts[AddrC]

	add("empty", sd(), nil)
	if !hasA {
		d := sd()
		cl := map[felt.Felt]core.ClassDefinition{}
		if !hasC0 {
			d.DeclaredV0Classes = []*felt.Felt{&h0}
			cl[h0] = c0
		}
		d.DeployedContracts[AddrA] = &h0
		add("deployA", d, cl)
	}
	if !hasS1 {
		d := sd()
		d.DeclaredV1Classes[sh1] = &casm1
		add("declareS1", d, map[felt.Felt]core.ClassDefinition{sh1: s1})
	}
	if hasS1 && !hasB {
		d := sd()
		d.DeployedContracts[AddrB] = &sh1
		d.StorageDiffs[AddrB] = map[felt.Felt]*felt.Felt{Slot0: F(9)}
		d.Nonces[AddrB] = F(1)
		add("deployB+touch", d, nil)
	}
	if !hasS2 && !hasC {
		// declare and deploy in one block, writing zero to a never-written slot of the new contract
		d := sd()
		d.DeclaredV1Classes[sh2] = &casm2
		d.DeployedContracts[AddrC] = &sh2
		d.StorageDiffs[AddrC] = map[felt.Felt]*felt.Felt{Slot0: F(0), Slot1: F(3)}
		add("declareS2+deployC", d, map[felt.Felt]core.ClassDefinition{sh2: s2})
	}
	if hasA {
		for _, v := range []uint64{0, 1, 2} {
			d := sd()
			d.StorageDiffs[AddrA] = map[felt.Felt]*felt.Felt{Slot0: F(v)}
			add("A.s0="+string(rune('0'+v)), d, nil)
		}
		d := sd()
		d.StorageDiffs[AddrA] = map[felt.Felt]*felt.Felt{Slot1: F(1), Slot0: F(2)}
		d.Nonces[AddrA] = new(felt.Felt).Add(&a.Nonce, F(1))
		add("A.s1=1,s0=2,nonce++", d, nil)
		d2 := sd()
		d2.Nonces[AddrA] = new(felt.Felt).Add(&a.Nonce, F(1))
		add("A.nonce++", d2, nil)
		if hasS1 && !a.Class.Equal(&sh1) {
			d := sd()
			d.ReplacedClasses[AddrA] = &sh1
			add("A.replace->S1", d, nil)
		}
		if hasS1 && a.Class.Equal(&sh1) {
			d := sd()
			d.ReplacedClasses[AddrA] = &h0
			add("A.replace->C0", d, nil)
		}
	}
	if hasA && hasC && !a.Class.Equal(&cc.Class) {
		// two contracts with DIFFERENT classes replaced in one block (they swap): the reverse diff of this block holds
		// two different previous class hashes
		d := sd()
		ac, ccl := a.Class, cc.Class
		d.ReplacedClasses[AddrA] = &ccl
		d.ReplacedClasses[AddrC] = &ac
		add("A<->C.swap-classes", d, nil)
	}
	{
		d := sd()
		d.StorageDiffs[Sys1] = map[felt.Felt]*felt.Felt{FV(number): F(0xB10C + number)}
		add("sys1.write", d, nil)
		if c, ok := st.Contracts[Sys1]; ok && len(c.Storage) > 0 {
			// write every slot of 0x1 back to zero: the system contract disappears again
			d := sd()
			m := map[felt.Felt]*felt.Felt{}
			for k := range c.Storage {
				m[k] = F(0)
			}
			d.StorageDiffs[Sys1] = m
			add("sys1.clear", d, nil)
		}
		d3 := sd()
		d3.StorageDiffs[Sys2] = map[felt.Felt]*felt.Felt{FV(7): F(1)}
		add("sys2.write", d3, nil)
	}
	if v2 && hasS1 && !r1.DeclaredV2 && !r1.Migrated {
		d := sd()
		d.MigratedClasses = map[felt.SierraClassHash]felt.CasmClassHash{felt.SierraClassHash(sh1): felt.CasmClassHash(c1v2)}
		add("migrateS1", d, nil)
	}
	return out
}
