package chain

import (
	"fmt"
	"sort"
	"strconv"
	"strings"

	"verif/mc/reftrie"

	"github.com/NethermindEth/juno/core"
	"github.com/NethermindEth/juno/core/felt"
)

// Contract is the dictionary model of one contract.
type Contract struct {
	Class      felt.Felt
	Nonce      felt.Felt
	Storage    map[felt.Felt]felt.Felt // zero values never stored
	DeployedAt uint64
	System     bool
}

// ClassRec is the dictionary model of one declared class.
type ClassRec struct {
	At         uint64
	Sierra     bool
	CasmV1     felt.Felt
	CasmV2     felt.Felt
	DeclaredV2 bool // declared in a >=0.14.1 block: class leaf carries the V2 hash from the start
	MigratedAt uint64
	Migrated   bool
}

// Casm is the compiled class hash committed in the class trie right now.
func (c *ClassRec) Casm() felt.Felt {
	if c.DeclaredV2 || c.Migrated {
		return c.CasmV2
	}
	return c.CasmV1
}

// State is the abstract Starknet state: the boring reference.
type State struct {
	Contracts map[felt.Felt]*Contract
	Classes   map[felt.Felt]*ClassRec
}

func NewState() *State {
	return &State{Contracts: map[felt.Felt]*Contract{}, Classes: map[felt.Felt]*ClassRec{}}
}

func (s *State) Clone() *State {
	n := NewState()
	for a, c := range s.Contracts {
		cc := *c
		cc.Storage = make(map[felt.Felt]felt.Felt, len(c.Storage))
		for k, v := range c.Storage {
			cc.Storage[k] = v
		}
		n.Contracts[a] = &cc
	}
	for h, c := range s.Classes {
		cc := *c
		n.Classes[h] = &cc
	}
	return n
}

func isSystem(a *felt.Felt) bool { return a.Equal(&Sys1) || a.Equal(&Sys2) }

// ge compares dotted protocol versions numerically, component by component (independent of juno's version parser:
// the formula switch on the version is part of what C01 checks). Missing components and the unversioned era ("") are 0.
func ge(version, than string) bool {
	a, b := verParts(version), verParts(than)
	for i := 0; i < 3; i++ {
		if a[i] != b[i] {
			return a[i] > b[i]
		}
	}
	return true
}

func verParts(v string) [3]uint64 {
	var out [3]uint64
	i := 0
	for _, part := range strings.Split(v, ".") {
		if i == 3 {
			break
		}
		n, err := strconv.ParseUint(part, 10, 64)
		if err != nil {
			n = 0
		}
		out[i] = n
		i++
	}
	return out
}

// Apply applies a state diff of block num. It returns an error for diffs the protocol cannot
// produce (touching undeployed non-system contracts, redeploying, ...), so generators stay valid.
func (s *State) Apply(num uint64, version string, d *core.StateDiff, classes map[felt.Felt]core.ClassDefinition) error {
	v2 := ge(version, "0.14.1")
	for _, h := range d.DeclaredV0Classes {
		if _, ok := s.Classes[*h]; !ok {
			s.Classes[*h] = &ClassRec{At: num}
		}
	}
	for h, casm := range d.DeclaredV1Classes {
		if _, ok := s.Classes[h]; ok {
			return fmt.Errorf("class %s redeclared", h.String())
		}
		rec := &ClassRec{At: num, Sierra: true}
		if v2 {
			rec.DeclaredV2 = true
			rec.CasmV2 = *casm
		} else {
			rec.CasmV1 = *casm
			if sc, ok := classes[h].(*core.SierraClass); ok {
				rec.CasmV2 = sc.Compiled.Hash(core.HashVersionV2)
			}
		}
		s.Classes[h] = rec
	}
	for h, casm := range d.MigratedClasses {
		rec, ok := s.Classes[felt.Felt(h)]
		if !ok || !rec.Sierra || rec.DeclaredV2 || rec.Migrated {
			return fmt.Errorf("cannot migrate class")
		}
		rec.Migrated, rec.MigratedAt, rec.CasmV2 = true, num, felt.Felt(casm)
	}
	for a, ch := range d.DeployedContracts {
		if _, ok := s.Contracts[a]; ok {
			return fmt.Errorf("contract redeployed")
		}
		s.Contracts[a] = &Contract{Class: *ch, Storage: map[felt.Felt]felt.Felt{}, DeployedAt: num}
	}
	for a, ch := range d.ReplacedClasses {
		c, ok := s.Contracts[a]
		if !ok || c.System {
			return fmt.Errorf("replace on undeployed contract")
		}
		c.Class = *ch
	}
	for a, n := range d.Nonces {
		c, ok := s.Contracts[a]
		if !ok || c.System {
			return fmt.Errorf("nonce on undeployed contract")
		}
		c.Nonce = *n
	}
	for a, kv := range d.StorageDiffs {
		c, ok := s.Contracts[a]
		if !ok {
			if !isSystem(&a) {
				return fmt.Errorf("storage on undeployed contract")
			}
			c = &Contract{Storage: map[felt.Felt]felt.Felt{}, System: true, DeployedAt: num}
			s.Contracts[a] = c
		}
		for k, v := range kv {
			if v.IsZero() {
				delete(c.Storage, k)
			} else {
				c.Storage[k] = *v
			}
		}
		if c.System && len(c.Storage) == 0 {
			delete(s.Contracts, a) // a system contract exists only through its storage
		}
	}
	return nil
}

func (s *State) StorageRoot(c *Contract) felt.Felt {
	kvs := make([]reftrie.KV, 0, len(c.Storage))
	for k, v := range c.Storage {
		k, v := k, v
		kvs = append(kvs, reftrie.KVOf(&k, &v))
	}
	return reftrie.Root(kvs, 251, reftrie.Pedersen)
}

func (s *State) ContractRoot() felt.Felt {
	kvs := make([]reftrie.KV, 0, len(s.Contracts))
	for a, c := range s.Contracts {
		a := a
		sr := s.StorageRoot(c)
		leaf := reftrie.ContractLeaf(&c.Class, &sr, &c.Nonce)
		kvs = append(kvs, reftrie.KVOf(&a, &leaf))
	}
	return reftrie.Root(kvs, 251, reftrie.Pedersen)
}

func (s *State) ClassRoot() felt.Felt {
	var kvs []reftrie.KV
	for h, c := range s.Classes {
		if !c.Sierra {
			continue
		}
		h := h
		casm := c.Casm()
		leaf := reftrie.ClassLeaf(&casm)
		kvs = append(kvs, reftrie.KVOf(&h, &leaf))
	}
	return reftrie.Root(kvs, 251, reftrie.Poseidon)
}

// Root is the protocol state commitment of the dictionary state for a block of the given version.
func (s *State) Root(version string) felt.Felt {
	cr, kr := s.ContractRoot(), s.ClassRoot()
	return reftrie.StateCommitment(&cr, &kr, ge(version, "0.14.0"))
}

// Addresses returns the contract addresses in sorted order (deterministic iteration).
func (s *State) Addresses() []felt.Felt {
	out := make([]felt.Felt, 0, len(s.Contracts))
	for a := range s.Contracts {
		out = append(out, a)
	}
	sort.Slice(out, func(i, j int) bool { return out[i].Cmp(&out[j]) < 0 })
	return out
}
