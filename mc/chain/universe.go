// Package chain: synthetic valid Starknet chains (chaingen), the dictionary reference node (refnode)
// and helpers to run a real juno Blockchain on an in-memory store.
package chain

import (
	"encoding/json"
	"fmt"
	"math/big"
	"sync"

	"github.com/NethermindEth/juno/blockchain/networks"
	"github.com/NethermindEth/juno/core"
	"github.com/NethermindEth/juno/core/felt"
	"github.com/NethermindEth/juno/utils/compression"
)

var Net = &networks.Sepolia

func F(u uint64) *felt.Felt { return new(felt.Felt).SetUint64(u) }
func FV(u uint64) felt.Felt { return *F(u) }
func FS(s string) *felt.Felt {
	f, err := new(felt.Felt).SetString(s)
	if err != nil {
		panic(err)
	}
	return f
}

// Universe of addresses / slots / keys.
var (
	AddrA = FV(0xA11CE)
	AddrB = FV(0xB0B)
	AddrC = FV(0xCA11)
	Sys1  = FV(1)
	Sys2  = FV(2)
	Seq   = FV(0x5E9)
	Slot0 = FV(0x10)
	Slot1 = FV(0x11)
	Key1  = FV(0x101)
	Key2  = FV(0x102)
)

// Sierra returns synthetic Sierra class i with a CASM; its class hash verifies under core.VerifyClassHashes.
type sierraMemo struct {
	cls                  *core.SierraClass
	hash, casmV1, casmV2 felt.Felt
}

var (
	memoMu     sync.Mutex
	sierraMem  = map[int]*sierraMemo{}
	cairo0Mem  = map[int]*core.DeprecatedCairoClass{}
	cairo0Hash = map[int]felt.Felt{}
)

// Sierra is memoised: the class objects are shared and must be treated as immutable.
func Sierra(i int) (cls *core.SierraClass, hash, casmV1, casmV2 felt.Felt) {
	memoMu.Lock()
	defer memoMu.Unlock()
	if m, ok := sierraMem[i]; ok {
		return m.cls, m.hash, m.casmV1, m.casmV2
	}
	cls, hash, casmV1, casmV2 = sierraBuild(i)
	sierraMem[i] = &sierraMemo{cls, hash, casmV1, casmV2}
	return
}

func sierraBuild(i int) (cls *core.SierraClass, hash, casmV1, casmV2 felt.Felt) {
	u := uint64(i)
	cls = &core.SierraClass{
		Abi:     fmt.Sprintf(`[{"n":%d}]`, i),
		AbiHash: F(0xAB100 + u),
		EntryPoints: core.SierraEntryPointsByType{
			Constructor: []core.SierraEntryPoint{},
			External:    []core.SierraEntryPoint{{Index: 0, Selector: F(0x5E1 + u)}},
			L1Handler:   []core.SierraEntryPoint{},
		},
		Program:         []felt.Felt{FV(1), FV(6), FV(0), FV(2), FV(7 + u)},
		ProgramHash:     F(0x9406 + u),
		SemanticVersion: "0.1.0",
		Compiled: &core.CasmClass{
			Bytecode:        []felt.Felt{FV(0x480680017fff8000), FV(u + 1), FV(0x208b7fff7fff7ffe)},
			PythonicHints:   json.RawMessage(`[]`),
			CompilerVersion: "2.6.0",
			Hints:           json.RawMessage(`[]`),
			Prime:           starkPrime(),
			External:        []core.CasmEntryPoint{{Offset: 0, Builtins: []string{"range_check"}, Selector: F(0x5E1 + u)}},
			L1Handler:       []core.CasmEntryPoint{},
			Constructor:     []core.CasmEntryPoint{},
		},
	}
	h, err := cls.Hash()
	if err != nil {
		panic(err)
	}
	return cls, h, cls.Compiled.Hash(core.HashVersionV1), cls.Compiled.Hash(core.HashVersionV2)
}

// Cairo0 returns synthetic deprecated class i. Its hash is computed by juno's own function when
// possible (not verified on the sync path anyway).
func Cairo0(i int) (*core.DeprecatedCairoClass, felt.Felt) {
	memoMu.Lock()
	defer memoMu.Unlock()
	if c, ok := cairo0Mem[i]; ok {
		return c, cairo0Hash[i]
	}
	c, h := cairo0Build(i)
	cairo0Mem[i], cairo0Hash[i] = c, h
	return c, h
}

func cairo0Build(i int) (*core.DeprecatedCairoClass, felt.Felt) {
	prog := fmt.Sprintf(`{"attributes":[],"builtins":["pedersen"],"compiler_version":"0.10.3","data":["0x%x","0x208b7fff7fff7ffe"],"debug_info":null,"hints":{},"identifiers":{},"main_scope":"__main__","prime":"0x800000000000011000000000000000000000000000000000000000000000001","reference_manager":{"references":[]}}`, 0x480680017fff8000+i)
	enc, err := compression.Gzip64Encode([]byte(prog))
	if err != nil {
		panic(err)
	}
	c := &core.DeprecatedCairoClass{
		Abi:          json.RawMessage(`[]`),
		Externals:    []core.DeprecatedEntryPoint{{Selector: F(0xE0 + uint64(i)), Offset: F(0)}},
		L1Handlers:   []core.DeprecatedEntryPoint{},
		Constructors: []core.DeprecatedEntryPoint{},
		Program:      enc,
	}
	h, err := c.Hash()
	if err != nil {
		h = FV(0xC0DE00 + uint64(i))
	}
	return c, h
}

func starkPrime() *big.Int {
	p, _ := new(big.Int).SetString("800000000000011000000000000000000000000000000000000000000000001", 16)
	return p
}
