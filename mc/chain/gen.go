package chain

import (
	"fmt"

	"github.com/NethermindEth/juno/core"
	"github.com/NethermindEth/juno/core/felt"
	"github.com/NethermindEth/juno/l1/eth"
)

// TxKinds lists every transaction kind/version juno supports.
var TxKinds = []string{
	"invoke0", "invoke1", "invoke3", "declare0", "declare1", "declare2", "declare3",
	"deploy0", "deployacc1", "deployacc3", "l1handler0", "invoke3proof",
}

type EvSpec struct {
	From felt.Felt
	Keys []felt.Felt
	Data []felt.Felt
}

type TxSpec struct {
	Kind     string
	Salt     uint64 // distinguishes otherwise equal transactions
	Events   []EvSpec
	Msgs     int // L2->L1 messages
	Reverted bool
}

type BlockSpec struct {
	Version   string // "0.13.2" | "0.13.4" | "0.14.0" | "0.14.1"
	Timestamp uint64
	Txs       []TxSpec
	Diff      *core.StateDiff
	Classes   map[felt.Felt]core.ClassDefinition
	Blob      bool
}

// Entry is one block of a reference chain together with the dictionary state after it.
type Entry struct {
	Spec    BlockSpec
	Block   *core.Block
	SU      *core.StateUpdate
	Classes map[felt.Felt]core.ClassDefinition
	State   *State // after this block
}

func ver(u uint64) *core.TransactionVersion { return new(core.TransactionVersion).SetUint64(u) }

func bounds(salt uint64, withData bool) map[core.Resource]core.ResourceBounds {
	m := map[core.Resource]core.ResourceBounds{
		core.ResourceL1Gas: {MaxAmount: 100 + salt, MaxPricePerUnit: F(0x1000 + salt)},
		core.ResourceL2Gas: {MaxAmount: 200 + salt, MaxPricePerUnit: F(0x2000)},
	}
	if withData {
		m[core.ResourceL1DataGas] = core.ResourceBounds{MaxAmount: 300, MaxPricePerUnit: F(0x3000 + salt)}
	}
	return m
}

// MakeTx builds a transaction of the given kind with a correct hash.
func MakeTx(sp TxSpec, version string) core.Transaction {
	s := sp.Salt
	withData := ge(version, "0.13.4")
	var tx core.Transaction
	switch sp.Kind {
	case "invoke0":
		tx = &core.InvokeTransaction{Version: ver(0), ContractAddress: &AddrA, EntryPointSelector: F(0x5E1), CallData: []felt.Felt{FV(1), FV(s)},
			MaxFee: F(0x77 + s), TransactionSignature: []felt.Felt{FV(0x51), FV(0x52 + s)}}
	case "invoke1":
		tx = &core.InvokeTransaction{Version: ver(1), SenderAddress: &AddrA, ContractAddress: &AddrA, CallData: []felt.Felt{FV(2), FV(s)}, MaxFee: F(0x78),
			Nonce: F(s), TransactionSignature: []felt.Felt{FV(0x61)}}
	case "invoke3", "invoke3proof":
		t := &core.InvokeTransaction{Version: ver(3), SenderAddress: &AddrB, CallData: []felt.Felt{FV(3), FV(s)}, Nonce: F(s + 1),
			ResourceBounds: bounds(s, withData), Tip: 5 + s, PaymasterData: []felt.Felt{FV(0x9A)}, AccountDeploymentData: []felt.Felt{FV(0xAD), FV(s)},
			NonceDAMode: core.DAModeL1, FeeDAMode: core.DAModeL2, TransactionSignature: []felt.Felt{FV(0x71), FV(0x72)}}
		if sp.Kind == "invoke3proof" {
			t.ProofFacts = []felt.Felt{FV(0xFAC7), FV(s)}
		}
		tx = t
	case "declare0":
		_, h := Cairo0(0)
		tx = &core.DeclareTransaction{Version: ver(0), ClassHash: &h, SenderAddress: F(1), MaxFee: F(0), Nonce: F(0), TransactionSignature: []felt.Felt{},
			TransactionHash: F(0xDEC0000 + s)}
	case "declare1":
		_, h := Cairo0(1)
		tx = &core.DeclareTransaction{Version: ver(1), ClassHash: &h, SenderAddress: &AddrA, MaxFee: F(0x79), Nonce: F(s + 2), TransactionSignature: []felt.Felt{FV(0x81)}}
	case "declare2":
		_, h, c1, _ := Sierra(1)
		tx = &core.DeclareTransaction{Version: ver(2), ClassHash: &h, SenderAddress: &AddrA, MaxFee: F(0x7A), Nonce: F(s + 3), CompiledClassHash: &c1,
			TransactionSignature: []felt.Felt{FV(0x82)}}
	case "declare3":
		_, h, c1, _ := Sierra(2)
		tx = &core.DeclareTransaction{Version: ver(3), ClassHash: &h, SenderAddress: &AddrB, Nonce: F(s + 4), CompiledClassHash: &c1,
			ResourceBounds: bounds(s, withData), Tip: s, PaymasterData: []felt.Felt{}, AccountDeploymentData: []felt.Felt{FV(7)},
			NonceDAMode: core.DAModeL2, FeeDAMode: core.DAModeL1, TransactionSignature: []felt.Felt{FV(0x83), FV(0x84), FV(0x85)}}
	case "deploy0":
		_, h := Cairo0(0)
		tx = &core.DeployTransaction{Version: ver(0), ContractAddressSalt: F(0x5A17 + s), ContractAddress: F(0xDE9107 + s), ClassHash: &h,
			ConstructorCallData: []felt.Felt{FV(9)}, TransactionHash: F(0xDE90000 + s)}
	case "deployacc1":
		_, h := Cairo0(1)
		tx = &core.DeployAccountTransaction{DeployTransaction: core.DeployTransaction{Version: ver(1), ContractAddressSalt: F(0x5A18 + s),
			ContractAddress: F(0xACC1 + s), ClassHash: &h, ConstructorCallData: []felt.Felt{FV(4), FV(5)}},
			MaxFee: F(0x7B), Nonce: F(0), TransactionSignature: []felt.Felt{FV(0x91)}}
	case "deployacc3":
		_, h, _, _ := Sierra(1)
		tx = &core.DeployAccountTransaction{DeployTransaction: core.DeployTransaction{Version: ver(3), ContractAddressSalt: F(0x5A19 + s),
			ContractAddress: F(0xACC3 + s), ClassHash: &h, ConstructorCallData: []felt.Felt{FV(6)}},
			Nonce: F(0), TransactionSignature: []felt.Felt{FV(0x92), FV(0x93)}, ResourceBounds: bounds(s, withData), Tip: 1 + s,
			PaymasterData: []felt.Felt{FV(0x9B), FV(0x9C)}, NonceDAMode: core.DAModeL2, FeeDAMode: core.DAModeL2}
	case "l1handler0":
		tx = &core.L1HandlerTransaction{Version: ver(0), ContractAddress: &AddrB, EntryPointSelector: F(0x11A), Nonce: F(0x40 + s),
			CallData: []felt.Felt{FV(0xE7A1), FV(s), FV(0x33)}}
	default:
		panic("unknown tx kind " + sp.Kind)
	}
	h, err := core.TransactionHash(tx, Net)
	if err != nil {
		panic(err)
	}
	switch t := tx.(type) {
	case *core.InvokeTransaction:
		t.TransactionHash = &h
	case *core.DeclareTransaction:
		t.TransactionHash = &h
	case *core.DeployTransaction:
		t.TransactionHash = &h
	case *core.DeployAccountTransaction:
		t.TransactionHash = &h
	case *core.L1HandlerTransaction:
		t.TransactionHash = &h
	}
	return tx
}

// MakeReceipt builds the receipt for tx.
func MakeReceipt(sp TxSpec, tx core.Transaction, version string) *core.TransactionReceipt {
	r := &core.TransactionReceipt{
		Fee:             F(0xFEE + sp.Salt),
		FeeUnit:         core.WEI,
		Events:          []*core.Event{},
		L2ToL1Message:   []*core.L2ToL1Message{},
		TransactionHash: tx.Hash(),
		ExecutionResources: &core.ExecutionResources{
			BuiltinInstanceCounter: core.BuiltinInstanceCounter{Pedersen: 3, RangeCheck: 4 + sp.Salt},
			Steps:                  100 + sp.Salt, MemoryHoles: 2,
			DataAvailability: &core.DataAvailability{L1Gas: 1, L1DataGas: 2 + sp.Salt},
			TotalGasConsumed: &core.GasConsumed{L1Gas: 10 + sp.Salt, L1DataGas: 20, L2Gas: 30},
		},
	}
	if tx.TxVersion().Is(3) {
		r.FeeUnit = core.STRK
	}
	for _, e := range sp.Events {
		e := e
		r.Events = append(r.Events, &core.Event{From: &e.From, Keys: append([]felt.Felt{}, e.Keys...), Data: append([]felt.Felt{}, e.Data...)})
	}
	for i := 0; i < sp.Msgs; i++ {
		r.L2ToL1Message = append(r.L2ToL1Message, &core.L2ToL1Message{From: &AddrA, Payload: []felt.Felt{FV(uint64(i)), FV(sp.Salt)},
			To: eth.AddressFromBytes([]byte{0xE1, byte(i)})})
	}
	if l1, ok := tx.(*core.L1HandlerTransaction); ok {
		r.L1ToL2Message = &core.L1ToL2Message{From: eth.AddressFromBytes(FS("0xE7A1").Marshal()[12:]), Nonce: l1.Nonce,
			Payload: append([]felt.Felt{}, l1.CallData[1:]...), Selector: l1.EntryPointSelector, To: l1.ContractAddress}
	}
	if sp.Reverted {
		r.Reverted = true
		r.RevertReason = fmt.Sprintf("reverted-%d", sp.Salt)
	}
	return r
}

// Build produces the block that follows parent (nil = genesis) according to spec. All hashes and the
// state root are valid: the root comes from the dictionary state + reftrie, never from juno's tries.
func Build(parent *Entry, spec BlockSpec) (*Entry, error) {
	st := NewState()
	var number uint64
	parentHash := &felt.Zero
	oldRoot := felt.Zero
	if parent != nil {
		st = parent.State.Clone()
		number = parent.Block.Number + 1
		parentHash = parent.Block.Hash
		oldRoot = *parent.Block.GlobalStateRoot
	}
	diff := spec.Diff
	if diff == nil {
		d := core.EmptyStateDiff()
		diff = &d
	}
	if err := st.Apply(number, spec.Version, diff, spec.Classes); err != nil {
		return nil, err
	}
	newRoot := st.Root(spec.Version)
	txs := make([]core.Transaction, 0, len(spec.Txs))
	rcs := make([]*core.TransactionReceipt, 0, len(spec.Txs))
	var evCount uint64
	for _, ts := range spec.Txs {
		tx := MakeTx(ts, spec.Version)
		txs = append(txs, tx)
		rc := MakeReceipt(ts, tx, spec.Version)
		rcs = append(rcs, rc)
		evCount += uint64(len(rc.Events))
	}
	da := core.Calldata
	if spec.Blob {
		da = core.Blob
	}
	b := &core.Block{
		Header: &core.Header{
			ParentHash: parentHash, Number: number, GlobalStateRoot: &newRoot, SequencerAddress: &Seq,
			TransactionCount: uint64(len(txs)), EventCount: evCount, Timestamp: spec.Timestamp, ProtocolVersion: spec.Version,
			EventsBloom: core.EventsBloom(rcs), L1GasPriceETH: F(0x6A5), L1GasPriceSTRK: F(0x6A6), L1DAMode: da,
			L1DataGasPrice: &core.GasPrice{PriceInWei: F(0xDA1), PriceInFri: F(0xDA2)},
			L2GasPrice:     &core.GasPrice{PriceInWei: F(0x2A1), PriceInFri: F(0x2A2)},
			Signatures:     [][]*felt.Felt{},
		},
		Transactions: txs, Receipts: rcs,
	}
	su := &core.StateUpdate{OldRoot: &oldRoot, NewRoot: &newRoot, StateDiff: diff}
	h, _, err := core.BlockHash(b, diff, Net, nil, core.TrieBackend)
	if err != nil {
		return nil, err
	}
	b.Hash = &h
	su.BlockHash = &h
	classes := spec.Classes
	if classes == nil {
		classes = map[felt.Felt]core.ClassDefinition{}
	}
	return &Entry{Spec: spec, Block: b, SU: su, Classes: classes, State: st}, nil
}

// Fresh rebuilds the entry's block/state-update from its spec so that callers can hand juno objects it
// may retain or mutate without aliasing the reference copy.
func (e *Entry) Fresh(parent *Entry) *Entry {
	n, err := Build(parent, e.Spec)
	if err != nil {
		panic(err)
	}
	return n
}
