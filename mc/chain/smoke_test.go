package chain

import (
	"testing"

	"github.com/NethermindEth/juno/core"
	"github.com/NethermindEth/juno/core/felt"
	"github.com/NethermindEth/juno/db/memory"
)

func TestSmoke(t *testing.T) {
	for _, version := range []string{"0.13.2", "0.13.4", "0.14.0", "0.14.1"} {
		for _, newState := range []bool{false, true} {
			c0, h0 := Cairo0(0)
			s1, sh1, casm1v1, casm1v2 := Sierra(1)
			casm := casm1v1
			if ge(version, "0.14.1") {
				casm = casm1v2
			}
			d0 := core.EmptyStateDiff()
			d0.DeclaredV0Classes = []*felt.Felt{&h0}
			d0.DeclaredV1Classes[sh1] = &casm
			d0.DeployedContracts[AddrA] = &h0
			d0.DeployedContracts[AddrB] = &sh1
			d0.StorageDiffs[AddrA] = map[felt.Felt]*felt.Felt{Slot0: F(5)}
			d0.StorageDiffs[Sys1] = map[felt.Felt]*felt.Felt{FV(0): F(0x1234)}
			d0.Nonces[AddrA] = F(1)
			var txs []TxSpec
			for i, k := range TxKinds {
				txs = append(txs, TxSpec{Kind: k, Salt: uint64(i), Events: []EvSpec{{From: AddrA, Keys: []felt.Felt{Key1}, Data: []felt.Felt{FV(1)}}}, Msgs: i % 2, Reverted: i%5 == 0})
			}
			e0, err := Build(nil, BlockSpec{Version: version, Timestamp: 100, Txs: txs, Diff: &d0,
				Classes: map[felt.Felt]core.ClassDefinition{h0: c0, sh1: s1}})
			if err != nil {
				t.Fatal(err)
			}
			d1 := core.EmptyStateDiff()
			d1.StorageDiffs[AddrA] = map[felt.Felt]*felt.Felt{Slot0: F(0), Slot1: F(7)}
			d1.ReplacedClasses[AddrA] = &sh1
			e1, err := Build(e0, BlockSpec{Version: version, Timestamp: 101, Diff: &d1})
			if err != nil {
				t.Fatal(err)
			}
			db := memory.New()
			bc := NewNode(db, newState)
			if err := StoreSync(bc, e0); err != nil {
				t.Fatalf("%s new=%v store0: %v", version, newState, err)
			}
			if err := StoreSync(bc, e1); err != nil {
				t.Fatalf("%s new=%v store1: %v", version, newState, err)
			}
			img := ImageHash(db)
			if err := bc.RevertHead(); err != nil {
				t.Fatalf("%s new=%v revert: %v", version, newState, err)
			}
			if err := StoreSync(bc, e1.Fresh(e0)); err != nil {
				t.Fatalf("restore: %v", err)
			}
			if ImageHash(db) != img {
				t.Errorf("%s new=%v image differs after revert+restore", version, newState)
			}
			t.Logf("%s new=%v ok keys=%d", version, newState, len(Image(db)))
		}
	}
}
