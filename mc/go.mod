module verif/mc

go 1.26.0

require (
	github.com/NethermindEth/juno v0.0.0
	github.com/bits-and-blooms/bloom/v3 v3.7.1
	github.com/cespare/xxhash/v2 v2.3.0
	github.com/cockroachdb/pebble v1.1.5
	github.com/cockroachdb/pebble/v2 v2.1.6
	github.com/davecgh/go-spew v1.1.1
	github.com/ethereum/go-ethereum v1.17.5
	github.com/go-playground/validator/v10 v10.30.3
	github.com/libp2p/go-libp2p v0.48.0
	github.com/sourcegraph/conc v0.3.1-0.20240121214520-5f936abd7ae8
	github.com/starknet-io/starknet-p2p-specs v0.0.0-00010101000000-000000000000
	google.golang.org/protobuf v1.36.11
)

require (
	filippo.io/bigmod v0.1.1-0.20260103110540-f8a47775ebe5 // indirect
	filippo.io/keygen v0.0.0-20260114151900-8e2790ea4c5b // indirect
	github.com/DataDog/zstd v1.5.7 // indirect
	github.com/KimMachineGun/automemlimit v0.7.5 // indirect
	github.com/Masterminds/semver/v3 v3.5.0 // indirect
	github.com/RaduBerinde/axisds v0.1.0 // indirect
	github.com/RaduBerinde/btreemap v0.0.0-20260105202824-d3184786f603 // indirect
	github.com/VictoriaMetrics/fastcache v1.13.3 // indirect
	github.com/benbjohnson/clock v1.3.5 // indirect
	github.com/beorn7/perks v1.0.1 // indirect
	github.com/bits-and-blooms/bitset v1.24.6 // indirect
	github.com/cockroachdb/crlib v0.0.0-20251122031428-fe658a2dbda1 // indirect
	github.com/cockroachdb/errors v1.12.0 // indirect
	github.com/cockroachdb/fifo v0.0.0-20240816210425-c5d0cb0b6fc0 // indirect
	github.com/cockroachdb/logtags v0.0.0-20241215232642-bb51bb14a506 // indirect
	github.com/cockroachdb/redact v1.1.6 // indirect
	github.com/cockroachdb/swiss v0.0.0-20251224182025-b0f6560f979b // indirect
	github.com/cockroachdb/tokenbucket v0.0.0-20250429170803-42689b6311bb // indirect
	github.com/coder/websocket v1.8.15 // indirect
	github.com/consensys/gnark-crypto v0.20.1 // indirect
	github.com/crate-crypto/go-eth-kzg v1.5.0 // indirect
	github.com/davidlazar/go-crypto v0.0.0-20200604182044-b73af7476f6c // indirect
	github.com/deckarep/golang-set/v2 v2.8.0 // indirect
	github.com/decred/dcrd/dcrec/secp256k1/v4 v4.4.1 // indirect
	github.com/dunglas/httpsfv v1.1.0 // indirect
	github.com/filecoin-project/go-clock v0.1.0 // indirect
	github.com/fjl/jsonw v0.1.0 // indirect
	github.com/flynn/noise v1.1.0 // indirect
	github.com/fsnotify/fsnotify v1.9.0 // indirect
	github.com/fxamacker/cbor/v2 v2.9.2 // indirect
	github.com/gabriel-vasile/mimetype v1.4.13 // indirect
	github.com/getsentry/sentry-go v0.42.0 // indirect
	github.com/go-logr/logr v1.4.3 // indirect
	github.com/go-logr/stdr v1.2.2 // indirect
	github.com/go-playground/locales v0.14.1 // indirect
	github.com/go-playground/universal-translator v0.18.1 // indirect
	github.com/gogo/protobuf v1.3.2 // indirect
	github.com/golang/snappy v1.0.1-0.20260716114414-9ae09f520e93 // indirect
	github.com/google/gopacket v1.1.19 // indirect
	github.com/google/uuid v1.6.0 // indirect
	github.com/gorilla/websocket v1.5.3 // indirect
	github.com/hashicorp/golang-lru v1.0.2 // indirect
	github.com/hashicorp/golang-lru/v2 v2.0.7 // indirect
	github.com/holiman/uint256 v1.3.2 // indirect
	github.com/huin/goupnp v1.3.0 // indirect
	github.com/ipfs/boxo v0.41.0 // indirect
	github.com/ipfs/go-cid v0.6.2 // indirect
	github.com/ipfs/go-datastore v0.9.2 // indirect
	github.com/ipfs/go-log/v2 v2.9.2 // indirect
	github.com/ipld/go-ipld-prime v0.24.0 // indirect
	github.com/jackpal/go-nat-pmp v1.0.2 // indirect
	github.com/jbenet/go-temp-err-catcher v0.1.0 // indirect
	github.com/klauspost/compress v1.19.1 // indirect
	github.com/klauspost/cpuid/v2 v2.3.0 // indirect
	github.com/klauspost/reedsolomon v1.14.1 // indirect
	github.com/koron/go-ssdp v0.1.0 // indirect
	github.com/kr/pretty v0.3.1 // indirect
	github.com/kr/text v0.2.0 // indirect
	github.com/leodido/go-urn v1.4.0 // indirect
	github.com/libp2p/go-buffer-pool v0.1.0 // indirect
	github.com/libp2p/go-cidranger v1.1.0 // indirect
	github.com/libp2p/go-flow-metrics v0.3.0 // indirect
	github.com/libp2p/go-libp2p-asn-util v0.4.1 // indirect
	github.com/libp2p/go-libp2p-kad-dht v0.42.1 // indirect
	github.com/libp2p/go-libp2p-kbucket v0.9.0 // indirect
	github.com/libp2p/go-libp2p-pubsub v0.17.0 // indirect
	github.com/libp2p/go-libp2p-record v0.3.1 // indirect
	github.com/libp2p/go-libp2p-routing-helpers v0.7.5 // indirect
	github.com/libp2p/go-msgio v0.3.0 // indirect
	github.com/libp2p/go-netroute v0.4.0 // indirect
	github.com/libp2p/go-reuseport v0.4.0 // indirect
	github.com/libp2p/go-yamux/v5 v5.1.0 // indirect
	github.com/marten-seemann/tcp v0.0.0-20210406111302-dfbc87cc63fd // indirect
	github.com/mattn/go-isatty v0.0.22 // indirect
	github.com/mikioh/tcpinfo v0.0.0-20190314235526-30a79bb1804b // indirect
	github.com/mikioh/tcpopt v0.0.0-20190314235656-172688c1accc // indirect
	github.com/minio/minlz v1.0.1 // indirect
	github.com/minio/sha256-simd v1.0.1 // indirect
	github.com/mr-tron/base58 v1.3.0 // indirect
	github.com/multiformats/go-base32 v0.1.0 // indirect
	github.com/multiformats/go-base36 v0.2.0 // indirect
	github.com/multiformats/go-multiaddr v0.16.1 // indirect
	github.com/multiformats/go-multiaddr-dns v0.5.0 // indirect
	github.com/multiformats/go-multiaddr-fmt v0.1.0 // indirect
	github.com/multiformats/go-multibase v0.3.0 // indirect
	github.com/multiformats/go-multicodec v0.10.0 // indirect
	github.com/multiformats/go-multihash v0.2.3 // indirect
	github.com/multiformats/go-multistream v0.6.1 // indirect
	github.com/multiformats/go-varint v0.1.0 // indirect
	github.com/munnerz/goautoneg v0.0.0-20191010083416-a7dc8b61c822 // indirect
	github.com/pbnjay/memory v0.0.0-20210728143218-7b4eea64cf58 // indirect
	github.com/pion/datachannel v1.6.0 // indirect
	github.com/pion/dtls/v3 v3.1.4 // indirect
	github.com/pion/ice/v4 v4.2.1 // indirect
	github.com/pion/interceptor v0.1.44 // indirect
	github.com/pion/logging v0.2.4 // indirect
	github.com/pion/mdns/v2 v2.1.0 // indirect
	github.com/pion/randutil v0.1.0 // indirect
	github.com/pion/rtcp v1.2.16 // indirect
	github.com/pion/rtp v1.10.1 // indirect
	github.com/pion/sctp v1.9.2 // indirect
	github.com/pion/sdp/v3 v3.0.18 // indirect
	github.com/pion/srtp/v3 v3.0.10 // indirect
	github.com/pion/stun/v3 v3.1.5 // indirect
	github.com/pion/transport/v4 v4.0.2 // indirect
	github.com/pion/turn/v4 v4.1.4 // indirect
	github.com/pion/webrtc/v4 v4.2.8 // indirect
	github.com/pkg/errors v0.9.1 // indirect
	github.com/pmezard/go-difflib v1.0.1-0.20181226105442-5d4384ee4fb2 // indirect
	github.com/polydawn/refmt v0.90.0 // indirect
	github.com/prometheus/client_golang v1.24.1 // indirect
	github.com/prometheus/client_model v0.6.2 // indirect
	github.com/prometheus/common v0.70.1 // indirect
	github.com/prometheus/procfs v0.21.1 // indirect
	github.com/quic-go/qpack v0.6.0 // indirect
	github.com/quic-go/quic-go v0.60.0 // indirect
	github.com/quic-go/webtransport-go v0.11.1 // indirect
	github.com/rogpeppe/go-internal v1.14.1 // indirect
	github.com/shirou/gopsutil v3.21.11+incompatible // indirect
	github.com/spaolacci/murmur3 v1.1.0 // indirect
	github.com/spf13/pflag v1.0.10 // indirect
	github.com/stretchr/testify v1.11.1 // indirect
	github.com/tklauser/go-sysconf v0.3.16 // indirect
	github.com/tklauser/numcpus v0.11.0 // indirect
	github.com/whyrusleeping/go-keyspace v0.0.0-20160322163242-5b898ac5add1 // indirect
	github.com/wlynxg/anet v0.0.5 // indirect
	github.com/x448/float16 v0.8.4 // indirect
	go.opentelemetry.io/auto/sdk v1.2.1 // indirect
	go.opentelemetry.io/otel v1.44.0 // indirect
	go.opentelemetry.io/otel/metric v1.44.0 // indirect
	go.opentelemetry.io/otel/trace v1.44.0 // indirect
	go.uber.org/dig v1.19.0 // indirect
	go.uber.org/fx v1.24.0 // indirect
	go.uber.org/multierr v1.11.0 // indirect
	go.uber.org/zap v1.28.0 // indirect
	golang.org/x/crypto v0.54.0 // indirect
	golang.org/x/exp v0.0.0-20260603202125-055de637280b // indirect
	golang.org/x/net v0.57.0 // indirect
	golang.org/x/sync v0.22.0 // indirect
	golang.org/x/sys v0.47.0 // indirect
	golang.org/x/text v0.40.0 // indirect
	golang.org/x/time v0.14.0 // indirect
	gonum.org/v1/gonum v0.17.0 // indirect
	gopkg.in/yaml.v3 v3.0.1 // indirect
	lukechampine.com/blake3 v1.4.1 // indirect
)

replace github.com/NethermindEth/juno => /repo

replace github.com/starknet-io/starknet-p2p-specs => /repo/starknet-p2p-specs
