#include <stdlib.h>
void compileSierraToCasm(void){abort();}
void freeCstr(void){abort();}
