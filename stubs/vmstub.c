#include <stdlib.h>
/* Stub replacements for the Rust VM symbols; no explored path may call them. */
void cairoVMCall(void){abort();}
void cairoVMExecute(void){abort();}
void setVersionedConstants(void){abort();}
void freeString(void){abort();}
